"""seqworld: the simulator for the Sequence dual-view cache (C04), integer ticks (C11) and
independence of copies / derived values (C16).

The simulator is the *caller*: it owns the order of public operations, every single step of the two
view-iterators (open / advance / edit / read / close-at-any-point / throw), and the semantically
invisible perturbations (reads, refresh, cache drops, copy-swap). Everything below the public API is
real S-Coda code from the working tree.
"""
from __future__ import annotations

import random
import zlib

from sim import core, music, observe, seqops
from sim.core import RunResult, Violation, EventLog
from sim.observe import (freshness, clone_seq, canon_views, canon_value, Unreadable, abs_events, abs_duration,
                         rel_events, rel_duration, raw_abs, raw_rel, first_diff, raw_snapshot)
from sim.seqops import OPS, MUT, VAL, READ, DIRECT

MODES = ["abs", "rel", "both"]
ITER_CTRL = ("iter_advance", "iter_edit", "iter_close", "iter_throw", "iter_exhaust")
MAX_SLOTS = 6


class _Boom(Exception):
    pass


class Foreign(Exception):
    def __init__(self, tag):
        super().__init__(tag)
        self.tag = tag


class IterState:
    __slots__ = ("view", "twin", "gen_s", "gen_t", "cur_s", "cur_t", "yields", "dirty", "started", "perturbed",
                 "pre", "variants", "read_since_yield", "tainted")

    def __init__(self, view, twin, gen_s, gen_t, pre):
        self.view = view
        self.twin = twin
        self.gen_s = gen_s
        self.gen_t = gen_t
        self.cur_s = None
        self.cur_t = None
        self.yields = 0
        self.dirty = False
        self.started = False
        self.perturbed = 0
        self.pre = pre
        self.variants = []  # [state, sequence, generator, current message] - same content, other freshness states
        # Within one iteration step the documented contract has exactly one transient: an edit made *after* the other view
        # was re-read in the same step is not visible through that (already regenerated) view until the next advance / close.
        # `tainted` marks that window; everywhere else - in particular edit-then-read - the views must agree.
        self.read_since_yield = False
        self.tainted = False

    def phase(self):
        if not self.started:
            return "opened"
        if self.tainted:
            return "susp-tainted"
        return "susp-dirty" if self.dirty else "susp-clean"


class Slot:
    __slots__ = ("seq", "it")

    def __init__(self, seq):
        self.seq = seq
        self.it = None


def _call(fn, *a):
    try:
        return fn(*a), None
    except core.RunTimeout:
        raise
    except Exception as e:  # noqa
        return None, e


class AllocFault:
    """Fault kind `alloc`: the k-th construction of a Message during ONE operation fails with MemoryError - the one place where
    an otherwise total operation can realistically die half-way (a synchronous failure point of the library's own code, not
    an interrupt at an arbitrary instruction). Installed only around the subject's call."""

    def __init__(self, k):
        self.k = k
        self.n = 0
        self.fired = False

    def __enter__(self):
        from scoda.elements.message import Message
        self._cls = Message
        self._real = Message.__init__
        me = self

        def init(obj, *a, **kw):
            me.n += 1
            if me.n == me.k and not me.fired:
                me.fired = True
                raise MemoryError("simulated allocation failure")
            return me._real(obj, *a, **kw)
        Message.__init__ = init
        return self

    def __exit__(self, *exc):
        self._cls.__init__ = self._real
        return False


def _msg_fields(m):
    return (m.message_type.value, m.channel, m.time, m.note, m.velocity, m.numerator, m.denominator,
            m.key.value if m.key is not None else None, m.program, m.control)


def _struct_abs(msgs):
    return [(m.message_type.value, m.time, None if m.message_type is observe.MT.INTERNAL else m.channel, m.note,
             m.velocity, m.numerator, m.denominator, m.key.value if m.key is not None else None, m.program, m.control)
            for m in msgs]


def _struct_rel(msgs):
    W = observe.MT.WAIT
    return [(m.message_type.value, m.time if m.message_type is W else None,
             None if m.message_type is W else m.channel, m.note,
             m.velocity, m.numerator, m.denominator, m.key.value if m.key is not None else None, m.program, m.control)
            for m in msgs]


def normal_form_views(P):
    """P: throw-away clone. Returns (A, R) - the lists both accessors return - if the sequence is in *normal form*:
    regenerating either view from the other reproduces it structurally (same order, same wait structure; channel of
    WAIT / INTERNAL markers ignored). In normal form a read or cache drop cannot change the order or structure of any
    list an operation will see, so the operation's effect must not depend on the freshness state. Returns None otherwise."""
    try:
        A = P.abs._messages
        R = P.rel._messages
        A2 = P._rel.to_absolute_sequence()._messages
        R2 = P._abs.to_relative_sequence()._messages
    except Exception:
        return None
    if _struct_abs(A2) != _struct_abs(A) or _struct_rel(R2) != _struct_rel(R):
        return None
    return A, R


def make_variant(A, R, state):
    return observe.make_sequence([observe.copy_msg(m) for m in A] if state in ("abs", "both") else None,
                                 [observe.copy_msg(m) for m in R] if state in ("rel", "both") else None)


_LOOSE_SKIP = ("is_channel_consistent", "get_sequence_channel")


def loosen(op, r):
    """Drop from a returned value what legitimately depends on marker details (INTERNAL entries, channel of WAIT)."""
    if op in _LOOSE_SKIP:
        return None
    if op == "get_message_times_of_type":
        return [x for x in r if x[1][0] != "internal"]
    if op == "get_message_pairings":
        out = [[ch, [p for p in ps if p and p[0][0] != "internal"]] for ch, ps in r]
        # a channel entry that only held INTERNAL markers exists or not depending on the marker's channel
        return sorted([x for x in out if x[1]], key=lambda x: (x[0] is None, x[0]))
    if op == "get_interleaved_message_pairings":
        return [[ch, p] for ch, p in r if p and p[0][0] != "internal"]
    if op == "to_midi_track":
        return [((m[0], None) + tuple(m[2:])) if m[0] == "wait" else m for m in r]
    return r


# =====================================================================================
# C04 world
# =====================================================================================

class C04World:
    def __init__(self, init, keep_log=False):
        self.slots = [Slot(music.build_sequence(i["spec"], i["mode"])) for i in init]
        self.log = EventLog(keep_log)
        self.stats = core.Counter()
        self.abstract = []
        self.mutations = 0
        self.perturbations = 0
        self.foreign = None
        self.halted = None
        self.ev_index = -1
        self._swap_how = "copy"

    # ---------------------------------------------------------------- oracles A, B, C

    def check_state(self, S, op, pre, where=""):
        """Oracles A (readable), B (agreement), C (lossless conversion). Returns canon 4-tuple."""
        key = {"op": op, "pre": pre}
        if S._abs_stale and S._rel_stale:
            raise _V(Violation("UNREADABLE", f"both views marked stale after {op} from state {pre}{where}", key))
        try:
            ae, ad, re_, rd = canon_views(S)
        except Unreadable as u:
            raise _V(Violation("UNREADABLE", f"accessor raised after {op} from state {pre}{where}: {u}", key))
        both = (not S._abs_stale) and (not S._rel_stale)
        if ae != re_ or ad != rd:
            cls = "DIVERGE" if both else "CONVERT"
            d = first_diff(ae, re_) or f"duration abs={ad} rel={rd}"
            raise _V(Violation(cls, f"views disagree after {op} from state {pre}{where} (fresh={freshness(S)}): {d}", key))
        # C: round trips on a clone, from each stored fresh view
        c = clone_seq(S)
        c_abs = c._abs if not c._abs_stale else None
        c_rel = c._rel if not c._rel_stale else None
        if c_abs is not None:
            try:
                back = c_abs.to_relative_sequence().to_absolute_sequence()._messages
            except Exception as e:
                raise _V(Violation("CONVERT", f"abs->rel->abs raised {type(e).__name__}: {e} after {op}", key))
            if abs_events(back) != ae or abs_duration(back) != ad:
                raise _V(Violation("CONVERT", f"abs->rel->abs lossy after {op}{where}: "
                                   f"{first_diff(ae, abs_events(back)) or (ad, abs_duration(back))}", key))
        if c_rel is not None:
            try:
                back = c_rel.to_absolute_sequence().to_relative_sequence()._messages
            except Exception as e:
                raise _V(Violation("CONVERT", f"rel->abs->rel raised {type(e).__name__}: {e} after {op}", key))
            if rel_events(back) != re_ or rel_duration(back) != rd:
                raise _V(Violation("CONVERT", f"rel->abs->rel lossy after {op}{where}: "
                                   f"{first_diff(re_, rel_events(back)) or (rd, rel_duration(back))}", key))
        return (ae, ad, re_, rd)

    def _judge_after_failed_op(self, S, op, pre, es, how, halt):
        """What the book-keeping of the two views owes the caller after an operation died half-way (it raised by itself, or an
        allocation inside it failed) - and no more: the DATA of the view the operation was working on may be half-done (times
        moved but not yet re-sorted, say), and what a conversion makes of such a list is nobody's promise. Judged: (1) the
        sequence is not left with both views marked stale; (2) two views that are both still marked fresh agree as stored.
        With `halt`, the history goes on afterwards unless the stored state is not canonical any more (the full state oracle
        would object); then the run ends there, unjudged and not counted as a foreign failure."""
        key = {"op": op, "pre": pre, "exc": type(es).__name__ if es is not None else "none"}
        if S._abs_stale and S._rel_stale:
            raise _V(Violation("EXC-UNREADABLE", f"both views marked stale after {op} from state {pre} ({how})", key))
        a, r = observe.raw_abs(S), observe.raw_rel(S)
        if a is not None and r is not None:
            sa = sorted(a, key=lambda m: m.time)
            if (abs_events(sa), abs_duration(sa)) != (rel_events(r), rel_duration(r)):
                raise _V(Violation("EXC-DIVERGE", f"both views are marked fresh after {op} from state {pre} {how} but they "
                                   f"disagree as stored: "
                                   f"{first_diff(abs_events(sa), rel_events(r)) or (abs_duration(sa), rel_duration(r))}"[:600], key))
        if not halt:
            return
        try:
            self.check_state(S, op, pre, " (after a failing allocation)")
        except _V:
            self.stats["reach_alloc/half_done_state_left_behind:run_ends_unjudged"] += 1
            self.halted = "alloc-aftermath"

    def canon_result(self, r, op, pre):
        """Canonical, comparable form of a returned value; runs the state oracles on returned sequences."""
        if isinstance(r, dict) and "pieces" in r:
            return ["pieces", [list(self.check_state(p, op, pre, " (returned sequence)")) for p in r["pieces"]]]
        if isinstance(r, dict) and "bars" in r:
            out = []
            for track in r["bars"]:
                tr = []
                for b in track:
                    tr.append([b.time_signature_numerator, b.time_signature_denominator,
                               b.key_signature.value if b.key_signature is not None else None,
                               list(self.check_state(b.sequence, op, pre, " (bar sequence)"))])
                out.append(tr)
            return ["bars", out]
        return r

    # ---------------------------------------------------------------- event application

    def apply(self, ev, idx):
        """Apply one event. Returns Violation or None. Total: illegal events are skipped."""
        self.ev_index = idx
        try:
            out = self._apply(ev)
        except _V as v:
            v.v.event_index = idx
            self.log.add(ev["op"], "viol", v.v.cls)
            return v.v
        except Foreign as f:
            self.foreign = f.tag
            self.log.add(ev["op"], "foreign", f.tag)
            return None
        slot = self.slots[ev.get("slot", 0) % len(self.slots)]
        snap = observe.stored_snapshot(slot.seq)
        self.log.add(ev["op"], out, core.digest_of(snap))
        return None

    def _apply(self, ev):
        op = ev["op"]
        slot = self.slots[ev.get("slot", 0) % len(self.slots)]
        S = slot.seq
        pre = freshness(S)
        phase = slot.it.phase() if slot.it is not None else "none"
        self.abstract.append(zlib.crc32(f"{op}|{pre}|{phase}".encode()))
        if slot.it is not None:
            return self._apply_during_iteration(ev, slot, pre, phase)
        if op in ITER_CTRL:
            return "skip:no-iterator"
        if op in ("iter_abs", "iter_rel"):
            return self._iter_open(slot, op[5:], pre)
        if op in ("drop_abs", "drop_rel"):
            return self._drop(slot, op, pre)
        if op == "copy_swap":
            self._swap_how = ev.get("how", "copy")
            return self._copy_swap(slot, pre)
        kind = OPS[op][0]
        if kind == READ:
            return self._read(slot, op, ev.get("args", {}), pre)
        return self._twin_step(slot, op, ev, pre)

    # ---- mutators / value-returning ops: per-step clean twin (oracle D)

    def _twin_step(self, slot, op, ev, pre):
        S = slot.seq
        kind, _, applier, _, _ = OPS[op]
        args = ev.get("args", {})
        pre_fn = seqops.PRECOND.get(op)
        if pre_fn is not None and not pre_fn(S, args):
            return "skip:precondition"
        # merge / concatenate may take ANOTHER SUBJECT of the run as argument ({"slot": k}): the argument stays alive, is
        # operated on later and is re-checked - sharing that such a call leaves between receiver and argument shows as soon as
        # one of them is changed in place. The twin gets a clone of the argument.
        live = None
        args_t = None
        if op in ("merge", "concatenate") and any(isinstance(x, dict) and "slot" in x for x in args.get("args", [])):
            other = self.slots[(ev.get("slot", 0) + 1) % len(self.slots)]
            if len(self.slots) < 2 or other is slot or other.it is not None:
                return "skip:no-live-argument"
            live = other
            args_t = dict(args, args=[{"_live": clone_seq(other.seq)} if isinstance(x, dict) and "slot" in x else x
                                      for x in args["args"]])
            args = dict(args, args=[{"_live": other.seq} if isinstance(x, dict) and "slot" in x else x for x in args["args"]])
            self.stats[f"reach_ref/{op}_with_the_other_subject_as_argument"] += 1
        T = clone_seq(S)  # clean twin: only the fresh views, deep-copied, no stale leftovers
        P = clone_seq(S)  # pre-state, for the cross-freshness-state variants (oracle D2)
        key = {"op": op, "pre": pre}
        inject = ev.get("inject")
        if live is not None:
            # a merge that dies after adopting the argument's messages and before rebuilding the receiver from copies leaves
            # the two subjects sharing them - a half-done effect nothing promises to undo, so the two fault kinds are not combined
            inject = None
        if inject and kind in (MUT, DIRECT):
            with AllocFault(inject) as af:
                rs, es = _call(applier, S, args)
            if af.fired:
                # the operation died (or swallowed the failure) somewhere in the middle: nothing is promised about WHICH of
                # its effects took place, but the history goes on - the sequence must stay readable and its two views must
                # still describe the same music
                self.stats["fault/alloc_failure_inside_operation"] += 1
                self.stats[f"reach_alloc/{op}|{'raised' if es is not None else 'swallowed'}"] += 1
                self.perturbations += 1
                self._judge_after_failed_op(S, op, pre, es, "met a failing allocation: " + (type(es).__name__ if es is not None
                                                                                               else "returned"), halt=True)
                return "ok:alloc-fault"
            self.stats["fault_not_fired/alloc"] += 1
        else:
            rs, es = _call(applier, S, args)
        rt, et = _call(applier, T, _clean_args(args) if args_t is None else args_t)
        if live is not None:
            # being an argument changes nothing for the argument (its views may be regenerated, its value may not)
            self.check_state(live.seq, op, pre, " (the subject that was passed as argument)")
        if es is not None or et is not None:
            if es is not None and et is not None and type(es) is type(et):
                if op == "copy":
                    raise _V(Violation("UNREADABLE", f"copy() raised {type(es).__name__}: {es} from state {pre}", key))
                # The refusal itself is foreign (it belongs to another property), but a public operation that raises must
                # not leave the sequence unreadable or its two views describing different music: the history goes on.
                self._judge_after_failed_op(S, op, pre, es, f"raised {type(es).__name__}", halt=False)
                raise Foreign(f"{op}:{type(es).__name__}")
            who = "subject" if es is not None else "clean twin"
            raise _V(Violation("STATE-DEPENDENT",
                               f"{op} from state {pre}: only the {who} raised "
                               f"({type(es).__name__ if es is not None else None}: {es} / "
                               f"{type(et).__name__ if et is not None else None}: {et})", key))
        self.stats[f"reach_fresh_x_op/{pre}|{op}"] += 1
        self.stats[f"op/{op}"] += 1
        if kind in (MUT, DIRECT):
            self.mutations += 1
        cs = self.canon_result(rs, op, pre)
        try:
            ct = self.canon_result(rt, op, pre)
        except _V as v:
            raise _V(Violation("STATE-DEPENDENT", f"{op} from state {pre}: value returned to the clean twin is broken: "
                               f"{v.v.detail}", key))
        if cs != ct:
            raise _V(Violation("STATE-DEPENDENT", f"{op} from state {pre}: returned value differs from clean twin: "
                               f"{first_diff(cs, ct)}"[:600], key))
        state_s = self.check_state(S, op, pre)
        try:
            state_t = canon_views(T)
        except Unreadable as u:
            raise _V(Violation("STATE-DEPENDENT", f"{op} from state {pre}: clean twin unreadable: {u}", key))
        if state_s != state_t:
            raise _V(Violation("STATE-DEPENDENT", f"{op} from state {pre}: effect differs from clean twin: "
                               f"{first_diff(list(state_s), list(state_t))}"[:600], key))
        if live is None:
            self._cross_state(P, op, applier, args, pre, cs, state_s)
        # adoption of returned sequences as new subjects
        adopt = ev.get("adopt")
        if adopt is not None and len(self.slots) < MAX_SLOTS:
            cand = []
            if isinstance(rs, dict) and "pieces" in rs:
                cand = rs["pieces"]
            elif isinstance(rs, dict) and "bars" in rs:
                cand = [b.sequence for b in rs["bars"][rs["own"]]]
            if cand:
                self.slots.append(Slot(cand[adopt % len(cand)]))
                self.stats["adopt/" + op] += 1
        return "ok"

    def _cross_state(self, P, op, applier, args, pre, cs, state_s):
        """Oracle D2 (freshness independence): from a pre-state in normal form, the same operation executed from the
        other two freshness states (reached by the legal, maskable perturbations read + cache drop) must have the
        same effect and return the same value."""
        nf = normal_form_views(P)
        if nf is None:
            self.stats["d2/skipped_not_normal_form"] += 1
            return
        A, R = nf
        key = {"op": op, "pre": pre}
        ls = loosen(op, cs)
        for state in MODES:
            if state == pre:
                continue
            V = make_variant(A, R, state)
            rv, ev_ = _call(applier, V, args)
            if ev_ is not None:
                raise _V(Violation("STATE-DEPENDENT", f"{op} succeeds from state {pre} but raises from state {state} on the "
                                   f"same content: {type(ev_).__name__}: {ev_}", key))
            try:
                cv = self.canon_result(rv, op, state)
                sv = canon_views(V)
            except (_V, Unreadable) as e:
                d = e.v.detail if isinstance(e, _V) else str(e)
                raise _V(Violation("STATE-DEPENDENT", f"{op} from state {state} (same content as the subject in state {pre}) "
                                   f"leaves a broken sequence: {d}"[:600], key))
            if loosen(op, cv) != ls:
                raise _V(Violation("STATE-DEPENDENT", f"{op}: value returned from state {pre} differs from state {state} on the "
                                   f"same content: {first_diff(ls, loosen(op, cv))}"[:600], key))
            if sv != state_s:
                raise _V(Violation("STATE-DEPENDENT", f"{op}: effect from state {pre} differs from state {state} on the same "
                                   f"content: {first_diff(list(state_s), list(sv))}"[:600], key))
            self.stats["d2/variants_compared"] += 1

    # ---- maskable perturbations (oracle E)

    def _read(self, slot, op, args, pre, in_iter=None):
        S = slot.seq
        key = {"op": op, "pre": pre}
        judge = in_iter is None or not in_iter.tainted
        before = canon_value(S) if judge else None
        _, e = _call(OPS[op][2], S, args)
        if e is not None:
            raise _V(Violation("UNREADABLE", f"{op} raised {type(e).__name__}: {e} from state {pre}", key))
        self.perturbations += 1
        self.stats[f"fault/{op}"] += 1
        self.stats[f"reach_fresh_x_op/{pre}|{op}"] += 1
        if judge:
            st = self.check_state(S, op, pre)
            if (st[0], st[1]) != before:
                raise _V(Violation("PERTURB", f"{op} from state {pre} changed the music: "
                                   f"{first_diff(list(before), [st[0], st[1]])}"[:600], key))
        return "ok"

    def _drop(self, slot, op, pre, in_iter=None):
        S = slot.seq
        key = {"op": op, "pre": pre}
        if op == "drop_abs":
            if S._rel_stale:
                return "skip:L4"
        else:
            if S._abs_stale:
                return "skip:L4"
        judge = in_iter is None or not in_iter.tainted
        before = canon_value(S) if judge else None
        if op == "drop_abs":
            _, e = _call(S.invalidate_abs)
        else:
            _, e = _call(S.invalidate_rel)
        if e is not None:
            raise _V(Violation("UNREADABLE", f"{op} raised {type(e).__name__}: {e}", key))
        self.perturbations += 1
        self.stats[f"fault/{op}"] += 1
        self.stats[f"reach_fresh_x_op/{pre}|{op}"] += 1
        if judge:
            st = self.check_state(S, op, pre)
            if (st[0], st[1]) != before:
                raise _V(Violation("PERTURB", f"{op} from state {pre} changed the music: "
                                   f"{first_diff(list(before), [st[0], st[1]])}"[:600], key))
        return "ok"

    def _copy_swap(self, slot, pre):
        S = slot.seq
        key = {"op": "copy_swap", "pre": pre}
        before = self.check_state(S, "copy_swap", pre)
        how = self._swap_how
        if how == "deepcopy":
            import copy as _copy
            c, e = _call(_copy.deepcopy, S)
        elif how == "pickle":
            import pickle
            c, e = _call(lambda: pickle.loads(pickle.dumps(S)))
        else:
            c, e = _call(S.copy)
        if e is not None:
            raise _V(Violation("UNREADABLE", f"copy() raised {type(e).__name__}: {e} from state {pre}", key))
        after = self.check_state(S, "copy_swap", pre, " (original after copy)")
        st = self.check_state(c, "copy_swap", pre, " (the copy)")
        if st != before or after != before:
            raise _V(Violation("PERTURB", f"copy() from state {pre} does not equal its original: "
                               f"{first_diff(list(before), list(st)) or first_diff(list(before), list(after))}"[:600], key))
        slot.seq = c
        self.perturbations += 1
        self.stats["fault/copy_swap"] += 1
        self.stats[f"reach_fresh_x_op/{pre}|copy_swap"] += 1
        return "ok"

    # ---- iterators as stepped tasks

    def _iter_open(self, slot, view, pre):
        S = slot.seq
        T = clone_seq(S)
        if view == "abs":
            gs, gt = S.messages_abs(), T.messages_abs()
        else:
            gs, gt = S.messages_rel(), T.messages_rel()
        slot.it = IterState(view, T, gs, gt, pre)
        nf = normal_form_views(clone_seq(S))
        if nf is not None:
            for state in MODES:
                if state != pre:
                    V = make_variant(nf[0], nf[1], state)
                    slot.it.variants.append([state, V, V.messages_abs() if view == "abs" else V.messages_rel(), None])
            self.stats["d2/iterations_with_variants"] += 1
        else:
            self.stats["d2/iterations_not_normal_form"] += 1
        self.stats[f"reach_fresh_x_op/{pre}|iter_{view}"] += 1
        self.stats[f"op/iter_{view}"] += 1
        return "ok"

    def _clean_point(self, slot, op, pre, where):
        it = slot.it
        S = slot.seq
        key = {"op": op, "pre": pre}
        st = self.check_state(S, op, pre, where)
        try:
            tt = canon_views(it.twin)
        except Unreadable as u:
            raise _V(Violation("STATE-DEPENDENT", f"{op}: unperturbed twin unreadable{where}: {u}", key))
        if st != tt:
            cls = "PERTURB" if it.perturbed else "STATE-DEPENDENT"
            raise _V(Violation(cls, f"{op}{where}: subject (with {it.perturbed} interleaved reads/drops) differs from the "
                               f"unperturbed twin: {first_diff(list(st), list(tt))}"[:600], key))
        for var in it.variants:
            try:
                sv = canon_views(var[1])
            except Unreadable as u:
                raise _V(Violation("STATE-DEPENDENT", f"{op}{where}: the same iteration started from state {var[0]} "
                                   f"(subject started from {it.pre}) leaves the sequence unreadable: {u}", key))
            if sv != st:
                raise _V(Violation("STATE-DEPENDENT", f"{op}{where}: the same iteration started from state {var[0]} differs "
                                   f"from the subject's (started from {it.pre}): {first_diff(list(st), list(sv))}"[:600], key))

    def _iter_finish(self, slot, op, pre, where):
        self._clean_point(slot, op, pre, where)
        it = slot.it
        self.stats[f"reach_iter_end/{it.view}|{where.strip()}|{'first' if it.yields <= 1 else 'later'}"] += 1
        slot.it = None

    def _advance(self, slot, op, pre):
        it = slot.it
        key = {"op": op, "pre": pre}
        ms, es = _call(next, it.gen_s)
        mt, et = _call(next, it.gen_t)
        it.started = True
        done_s = isinstance(es, StopIteration)
        done_t = isinstance(et, StopIteration)
        if (es is not None and not done_s) or (et is not None and not done_t):
            if es is not None and not done_s:
                raise _V(Violation("UNREADABLE", f"{op}: iterator raised {type(es).__name__}: {es}", key))
            raise _V(Violation("STATE-DEPENDENT", f"{op}: only the twin's iterator raised {type(et).__name__}: {et}", key))
        if done_s != done_t:
            raise _V(Violation("PERTURB" if it.perturbed else "STATE-DEPENDENT",
                               f"{op}: iteration length differs from unperturbed twin after {it.yields} yields", key))
        if done_s:
            self._variants_advance(it, op, key, True, None)
            return True
        if _msg_fields(ms) != _msg_fields(mt):
            raise _V(Violation("PERTURB" if it.perturbed else "STATE-DEPENDENT",
                               f"{op}: yielded message #{it.yields} differs from unperturbed twin: "
                               f"{_msg_fields(ms)} != {_msg_fields(mt)}", key))
        # Oracle F: what the generator hands out IS the k-th message the sequence stores in that view right now (the README's
        # contract: edit the yielded message, the sequence changes). The twin cannot see a generator that walks a list captured
        # earlier - it runs the same code - but the identity can.
        S = slot.seq
        lst = raw_abs(S) if it.view == "abs" else raw_rel(S)
        if lst is None or it.yields >= len(lst) or lst[it.yields] is not ms:
            raise _V(Violation("ITER-STALE", f"{op}: message #{it.yields} handed out by the {it.view} generator is not message "
                               f"#{it.yields} of the sequence's stored {it.view} view "
                               f"({'view marked stale' if lst is None else 'list has ' + str(len(lst)) + ' messages'}): the iteration walks "
                               f"something else than the sequence as it is", key))
        it.cur_s, it.cur_t = ms, mt
        it.yields += 1
        it.dirty = False
        it.read_since_yield = False
        it.tainted = False
        self._variants_advance(it, op, key, False, ms)
        return False

    def _variants_advance(self, it, op, key, done_s, ms):
        W, I = observe.MT.WAIT, observe.MT.INTERNAL
        for var in it.variants:
            mv, ev_ = _call(next, var[2])
            done_v = isinstance(ev_, StopIteration)
            if ev_ is not None and not done_v:
                raise _V(Violation("STATE-DEPENDENT", f"{op}: iterator started from state {var[0]} raised "
                                   f"{type(ev_).__name__}: {ev_}", key))
            if done_v != done_s:
                raise _V(Violation("STATE-DEPENDENT", f"{op}: iteration started from state {var[0]} has a different length "
                                   f"than from state {it.pre} (after {it.yields} yields)", key))
            if done_s:
                continue
            fs, fv = list(_msg_fields(ms)), list(_msg_fields(mv))
            if ms.message_type in (W, I):
                fs[1] = fv[1] = None
            if fs != fv:
                raise _V(Violation("STATE-DEPENDENT", f"{op}: message #{it.yields} yielded from state {var[0]} differs from "
                                   f"state {it.pre}: {fv} != {fs}", key))
            var[3] = mv

    def _apply_during_iteration(self, ev, slot, pre, phase):
        op = ev["op"]
        it = slot.it
        S = slot.seq
        view = it.view
        tag = f"iter_{view}:{op[5:]}" if op.startswith("iter_") else op
        if op == "iter_advance":
            self.stats[f"reach_iter_phase/{phase}|advance"] += 1
            done = self._advance(slot, tag, pre)
            if done:
                self._iter_finish(slot, tag, pre, " at exhaustion")
            else:
                self._clean_point(slot, tag, pre, " at advance")
            return "ok"
        if op == "iter_exhaust":
            self.stats[f"reach_iter_phase/{phase}|exhaust"] += 1
            for _ in range(100000):
                if self._advance(slot, tag, pre):
                    break
            self._iter_finish(slot, tag, pre, " at exhaustion")
            return "ok"
        if op == "iter_close":
            self.stats[f"reach_iter_phase/{phase}|close"] += 1
            _, es = _call(it.gen_s.close)
            _, et = _call(it.gen_t.close)
            for var in it.variants:
                _call(var[2].close)
            if es is not None:
                raise _V(Violation("UNREADABLE", f"{tag}: close() raised {type(es).__name__}: {es}", {"op": tag, "pre": pre}))
            self._iter_finish(slot, tag, pre, " at close")
            return "ok"
        if op == "iter_throw":
            self.stats[f"reach_iter_phase/{phase}|throw"] += 1
            _, es = _call(it.gen_s.throw, _Boom())
            _, et = _call(it.gen_t.throw, _Boom())
            for var in it.variants:
                _call(var[2].throw, _Boom())
            if not isinstance(es, (_Boom, StopIteration)):
                raise _V(Violation("UNREADABLE", f"{tag}: throw() gave {type(es).__name__}: {es}", {"op": tag, "pre": pre}))
            self._iter_finish(slot, tag, pre, " at throw")
            return "ok"
        if op == "iter_edit":
            if it.cur_s is None:
                return "skip:nothing-yielded"
            self.stats[f"reach_iter_phase/{phase}|edit"] += 1
            prev_t = next_t = None
            if view == "abs":
                lst = getattr(getattr(S, "_abs", None), "_messages", None) or []
                i = it.yields - 1
                if 0 <= i < len(lst) and lst[i] is it.cur_s:
                    prev_t = lst[i - 1].time if i > 0 else 0
                    next_t = lst[i + 1].time if i + 1 < len(lst) else None
                else:
                    prev_t = next_t = it.cur_s.time  # cannot locate: keep time as is
            r = seqops.resolve_edit(it.cur_s, view, ev.get("field", 0), ev.get("value", 0), prev_t, next_t)
            if r is None:
                return "skip:no-editable-field"
            setattr(it.cur_s, r[0], r[1])
            setattr(it.cur_t, r[0], r[1])
            for var in it.variants:
                if var[3] is not None:
                    setattr(var[3], r[0], r[1])
            it.dirty = True
            if it.read_since_yield:
                it.tainted = True
            self.mutations += 1
            self.stats[f"op/iter_{view}:edit"] += 1
            if it.perturbed:
                self.stats["reach_iter/edit_after_read_in_same_iteration"] += 1
            return "ok"
        # reads / drops interleaved with a suspended iterator (L2)
        if op in ("drop_abs", "drop_rel"):
            if op[5:] == view:
                return "skip:L2-same-view-drop"
            out = self._drop(slot, op, pre, in_iter=it)
            if out == "ok":
                it.perturbed += 1
                it.read_since_yield = True
                self.stats[f"reach_iter_phase/{phase}|{op}"] += 1
            return out
        legal = op in seqops.ITER_SAFE_READS or (view == "rel" and op in ("equals", "get_message_pairings",
                                                                         "get_interleaved_message_pairings"))
        if not legal and not it.started and op in OPS and OPS[op][0] in (MUT, VAL, DIRECT):
            # the generator object exists but nothing has been handed out yet (no next()): any operation is still legal,
            # and the iteration that follows must walk the sequence as it is THEN
            return self._op_before_first_next(slot, op, ev, pre)
        if not legal:
            return "skip:L2"
        if op == "copy":
            if it.tainted:
                return "skip:L2-copy-in-tainted-window"
            c, e = _call(S.copy)
            if e is not None:
                raise _V(Violation("UNREADABLE", f"copy() raised {type(e).__name__}: {e} during iteration", {"op": op, "pre": pre}))
            st = self.check_state(S, op, pre, " (during iteration)")
            sc = self.check_state(c, op, pre, " (copy taken during iteration)")
            if st != sc:
                raise _V(Violation("PERTURB", f"copy taken during iteration differs from original: "
                                   f"{first_diff(list(st), list(sc))}"[:600], {"op": op, "pre": pre}))
            if ev.get("adopt") is not None and len(self.slots) < MAX_SLOTS:
                # the copy taken while the original's iterator is suspended lives on as a subject of its own
                self.slots.append(Slot(c))
                self.stats["adopt/copy_during_iteration"] += 1
            it.perturbed += 1
            it.read_since_yield = True
            self.perturbations += 1
            self.stats["fault/copy"] += 1
            self.stats[f"reach_iter_phase/{phase}|copy"] += 1
            return "ok"
        args = ev.get("args", {})
        if op in seqops.NEEDS_NONEMPTY_ABS and seqops._abs_count(S) == 0:
            return "skip:empty"
        if OPS[op][0] == READ:
            out = self._read(slot, op, args, pre, in_iter=it)
        else:
            # pure getter: S only; value is not judged here (the per-step twin judges getters outside iterations)
            judge = not it.tainted
            before = canon_value(S) if judge else None
            _, e = _call(OPS[op][2], S, args)
            if e is not None:
                raise Foreign(f"{op}:{type(e).__name__}")
            self.perturbations += 1
            self.stats[f"fault/{op}"] += 1
            if judge:
                st = self.check_state(S, op, pre, " (during iteration)")
                if (st[0], st[1]) != before:
                    raise _V(Violation("PERTURB", f"{op} during iteration changed the music", {"op": op, "pre": pre}))
            out = "ok"
        it.perturbed += 1
        it.read_since_yield = True
        self.stats[f"reach_iter_phase/{phase}|read"] += 1
        if phase == "susp-dirty":
            self.stats["reach_iter/read_judged_between_edit_and_next_step"] += 1
        if phase == "susp-tainted":
            self.stats["reach_iter/read_unjudged_in_tainted_window"] += 1
        return out

    def _op_before_first_next(self, slot, op, ev, pre):
        it = slot.it
        S = slot.seq
        args = ev.get("args", {})
        pre_fn = seqops.PRECOND.get(op)
        if pre_fn is not None and not pre_fn(S, args):
            return "skip:precondition"
        applier = OPS[op][2]
        key = {"op": op, "pre": pre}
        parties = [("subject", S), ("twin", it.twin)] + [(f"variant {v[0]}", v[1]) for v in it.variants]
        # The twin and the variants were made when the iterator was opened; the subject may have had a view dropped and
        # regenerated since. The same music can then be STORED differently in the parties - [wait 3, wait 189] against
        # [wait 192], or two messages of one tick in another order - and an operation that addresses a message by position
        # (direct_edit, add_relative_message(index)) or whose result depends on the order inside a tick (normalise on a
        # signature and a note sharing a tick) legitimately differs. Comparing them would be the harness's mistake (it was,
        # twice: DESIGN 12.3), so the comparison is only made while all parties store both views identically.
        try:
            shapes = {_structure(q) for _, q in parties}
        except Exception:
            shapes = {0, 1}
        if len(shapes) != 1:
            self.stats["skip/op_before_first_next_on_differently_stored_parties"] += 1
            return "skip:stored-form-differs"
        outs = [(name, ) + _call(applier, q, args) for name, q in parties]
        excs = [o for o in outs if o[2] is not None]
        if excs:
            if len(excs) == len(outs) and len({type(o[2]) for o in outs}) == 1:
                raise Foreign(f"{op}:{type(outs[0][2]).__name__}")
            raise _V(Violation("STATE-DEPENDENT", f"{op} with an unstarted iterator open: raised for "
                               f"{[o[0] for o in excs]} only ({excs[0][2]!r})", key))
        self.stats[f"op/{op}"] += 1
        self.stats["reach_iter/op_between_open_and_first_next"] += 1
        if OPS[op][0] in (MUT, DIRECT):
            self.mutations += 1
        st = self.check_state(S, op, pre, " (iterator opened, not started)")
        for name, q in parties[1:]:
            try:
                sq = canon_views(q)
            except Unreadable as u:
                raise _V(Violation("STATE-DEPENDENT", f"{op} with an unstarted iterator open: {name} unreadable: {u}", key))
            if sq != st:
                raise _V(Violation("STATE-DEPENDENT", f"{op} with an unstarted iterator open: {name} differs from the subject: "
                                   f"{first_diff(list(st), list(sq))}"[:600], key))
        return "ok"

    def finish(self):
        """Close every iterator still open (never leave it to the garbage collector)."""
        for si, slot in enumerate(self.slots):
            if slot.it is not None:
                v = self.apply({"op": "iter_close", "slot": si}, self.ev_index + 1)
                if v is not None:
                    return v
        return None


def _structure(q):
    """Ordered content of both views as the accessors would hand them out (computed on a clone)."""
    c = clone_seq(q)
    return (repr(observe.raw_snapshot(c.abs._messages)), repr(observe.raw_snapshot(c.rel._messages)))


def _clean_args(args):
    """Same arguments, but every sequence-valued one is handed over as a clean clone (fresh views only)."""
    if not isinstance(args, dict):
        return args
    out = dict(args)
    changed = False
    if isinstance(args.get("args"), list):
        out["args"] = [dict(x, _clean=True) if isinstance(x, dict) and "spec" in x else x for x in args["args"]]
        changed = True
    for k in ("other", "meta"):
        if isinstance(args.get(k), dict) and "spec" in args[k]:
            out[k] = dict(args[k], _clean=True)
            changed = True
    if isinstance(args.get("extra"), list):
        out["extra"] = [dict(x, _clean=True) if isinstance(x, dict) and "spec" in x else x for x in args["extra"]]
        changed = True
    return out if changed else args


class _V(Exception):
    def __init__(self, v):
        super().__init__(v.cls)
        self.v = v


# =====================================================================================
# C04 generation
# =====================================================================================

def _draw_knobs(rng, tier):
    lane = "baseline" if rng.random() < 0.15 else "fault"
    muts = [m for m in seqops.MUTATORS if rng.random() < 0.6]
    if len(muts) < 3:
        muts = rng.sample(seqops.MUTATORS, 3)
    vals = [m for m in seqops.VALUE_OPS if rng.random() < 0.5] or ["split"]
    k = {
        "lane": lane,
        "muts": muts,
        "vals": vals,
        "p_read": 0.0 if lane == "baseline" else rng.choice([0.05, 0.15, 0.3]),
        "p_iter": 0.0 if lane == "baseline" else rng.choice([0.0, 0.08, 0.2]),
        "p_drop": 0.0 if lane == "baseline" else rng.choice([0.0, 0.05, 0.12]),
        "p_swap": 0.0 if lane == "baseline" else rng.choice([0.0, 0.03, 0.08]),
        "p_val": rng.choice([0.05, 0.15, 0.25]),
        "n_events": rng.randrange(3, 17) if tier == "quick" else rng.randrange(3, 41),
        "channels": (0,) if rng.random() < 0.75 else (0, 1),
        "n_slots": 1 if rng.random() < 0.75 else 2,
        "p_repeat": rng.choice([0.0, 0.1, 0.25]),
        "max_notes": rng.choice([2, 4, 8, 12, 12, 20] if tier == "quick" else [2, 4, 8, 12, 20, 40]),
        # dense content (many notes in a short span, on several pitches) makes numeric coincidences between notes common
        "horizon": rng.choice([24, 48, 96, 200, 400, 900]),
        "pitches": None,
        # fault kind `alloc` (swarm style: off in most runs)
        "p_alloc": 0.0 if lane == "baseline" else rng.choice([0.0, 0.0, 0.0, 0.1, 0.3]),
    }
    if rng.random() < 0.4:
        base = rng.randrange(30, 90)
        k["pitches"] = sorted({base + rng.randrange(0, 14) for _ in range(rng.randrange(3, 9))})
    return k


def _gen_init(rng, knobs):
    init = []
    for _ in range(knobs["n_slots"]):
        r = rng.random()
        if r < 0.08:
            init.append({"spec": dict(music.EMPTY_SPEC), "mode": "empty"})
        else:
            spec = music.gen_music(rng, max_notes=knobs["max_notes"], channels=knobs["channels"], horizon=knobs["horizon"],
                                   pitches=knobs["pitches"])
            init.append({"spec": spec, "mode": rng.choice(MODES) if rng.random() < 0.9 else f"insert:{rng.randrange(1, 1 << 20)}"})
    return init


def _gen_event(rng, world, knobs):
    nslots = len(world.slots)
    si = 0 if (nslots == 1 or rng.random() < 0.6) else rng.randrange(nslots)
    slot = world.slots[si]
    S = slot.seq
    if slot.it is not None:
        it = slot.it
        r = rng.random()
        if not it.started and r < 0.2:
            op = seqops.weighted_choice(rng, seqops.MUTATORS, knobs.get("muts"))
            return {"op": op, "slot": si, "args": OPS[op][1](rng, S)}
        if r < 0.34:
            return {"op": "iter_advance", "slot": si}
        if r < 0.60:
            return {"op": "iter_edit", "slot": si, "field": rng.randrange(1 << 16), "value": rng.randrange(1 << 16)}
        if r < 0.84:
            other = "rel" if it.view == "abs" else "abs"
            rr = rng.random()
            if rr < 0.45:
                op = "read_" + other
            elif rr < 0.55:
                op = "drop_" + other
            else:
                op = rng.choice(seqops.ITER_SAFE_READS)
            ev = {"op": op, "slot": si}
            if op in OPS:
                ev["args"] = OPS[op][1](rng, S)
            if op == "copy" and rng.random() < 0.5:
                ev["adopt"] = 0
            return ev
        if r < 0.93:
            return {"op": "iter_close", "slot": si}
        if r < 0.97:
            return {"op": "iter_exhaust", "slot": si}
        return {"op": "iter_throw", "slot": si}
    r = rng.random()
    acc = knobs["p_read"]
    if r < acc:
        op = seqops.weighted_choice(rng, seqops.READ_OPS)
        return {"op": op, "slot": si, "args": {}}
    acc += knobs["p_iter"]
    if r < acc:
        return {"op": rng.choice(["iter_abs", "iter_rel"]), "slot": si}
    acc += knobs["p_drop"]
    if r < acc:
        return {"op": rng.choice(["drop_abs", "drop_rel"]), "slot": si}
    acc += knobs["p_swap"]
    if r < acc:
        return {"op": "copy_swap", "slot": si, "how": rng.choice(["copy", "copy", "copy", "deepcopy", "pickle"])}
    acc += knobs["p_val"]
    if r < acc:
        op = seqops.weighted_choice(rng, seqops.VALUE_OPS, knobs["vals"])
        if op in seqops.NEEDS_NONEMPTY_ABS and seqops._abs_count(S) == 0:
            op = "is_empty"
        if op == "sequences_split_bars" and seqops._late_tsig(S) and rng.random() < 0.85:
            op = "split"
        if op == "get_sequence_channel" and len(seqops._channels(S)) > 1 and rng.random() < 0.9:
            op = "is_channel_consistent"
        ev = {"op": op, "slot": si, "args": OPS[op][1](rng, S)}
        if op in ("split", "copy", "sequences_split_bars") and rng.random() < 0.35:
            ev["adopt"] = rng.randrange(0, 8)
        return ev
    op = seqops.weighted_choice(rng, seqops.MUTATORS, knobs["muts"])
    ev = {"op": op, "slot": si, "args": OPS[op][1](rng, S)}
    if op == "merge" and nslots >= 2 and rng.random() < 0.4:
        # "the other subject", whichever it is. Not for concatenate: it adopts the argument's Message objects by design (the
        # repository's own test_concatenate asserts their identity), so a later operation on the argument legitimately shows
        # in the receiver - multi-object sharing that neither C04 nor C16 speaks about (DESIGN 12.8)
        ev["args"] = {"args": [{"slot": 1}]}
    if knobs.get("p_alloc") and rng.random() < knobs["p_alloc"]:
        ev["inject"] = rng.choice([1, 1, 2, 3, 5, 8, rng.randrange(1, 40)])
    return ev


# directed sweep: one op from each freshness state (coverage aid, DESIGN §5 C04 reach probes)
_DIRECTED = [(op, mode) for op in seqops.ALL_OPS for mode in MODES]
DIRECTED_REPS = 2


def _directed_events(rng, world, op):
    S = world.slots[0].seq
    if op in ("iter_abs", "iter_rel"):
        other = "rel" if op == "iter_abs" else "abs"
        evs = [{"op": op, "slot": 0}, {"op": "iter_advance", "slot": 0},
               {"op": "read_" + other, "slot": 0, "args": {}},
               {"op": "iter_edit", "slot": 0, "field": rng.randrange(1 << 16), "value": rng.randrange(1 << 16)},
               {"op": "read_" + other, "slot": 0, "args": {}},
               {"op": "iter_edit", "slot": 0, "field": rng.randrange(1 << 16), "value": rng.randrange(1 << 16)},
               {"op": rng.choice(["iter_advance", "iter_close", "iter_throw", "iter_exhaust"]), "slot": 0},
               {"op": "iter_close", "slot": 0}]
        return evs
    if op in ("drop_abs", "drop_rel", "copy_swap"):
        return [{"op": op, "slot": 0}, {"op": "read_abs", "slot": 0, "args": {}}, {"op": "read_rel", "slot": 0, "args": {}}]
    if op in seqops.NEEDS_NONEMPTY_ABS and seqops._abs_count(S) == 0:
        return [{"op": "is_empty", "slot": 0, "args": {}}]
    ev = {"op": op, "slot": 0, "args": OPS[op][1](rng, S)}
    tail = rng.choice([["read_abs", "read_rel"], ["read_rel", "read_abs"], ["refresh"], ["copy_swap", "read_abs"]])
    return [ev] + [{"op": t, "slot": 0, "args": {}} for t in tail]


def _pingpong_events(rng):
    """Scripted lane: the two view-iterators take turns on the same few messages; each round opens one view, advances a
    little, edits (mostly the same field, values from a tiny pool, so a -> b -> a happens), and stops at the yield or
    later; reads / refresh / copy-swap between the rounds."""
    evs = []
    for op in rng.choice([[], ["read_abs"], ["read_rel"], ["read_abs", "read_rel"], ["refresh"]]):
        evs.append({"op": op, "slot": 0, "args": {}})
    view = rng.choice(["abs", "rel"])
    field = rng.randrange(1 << 16)
    depth = rng.choice([1, 1, 1, 2, 3])
    for _ in range(rng.randrange(2, 6)):
        evs.append({"op": "iter_" + view, "slot": 0})
        for _ in range(depth if rng.random() < 0.8 else rng.choice([1, 2, 3])):
            evs.append({"op": "iter_advance", "slot": 0})
        for _ in range(rng.choice([1, 1, 2])):
            f = field if rng.random() < 0.75 else rng.randrange(1 << 16)
            evs.append({"op": "iter_edit", "slot": 0, "field": f, "value": rng.randrange(1 << 16) | (1 if rng.random() < 0.8 else 0)})
        evs.extend(rng.choice([[{"op": "iter_close", "slot": 0}], [{"op": "iter_close", "slot": 0}],
                               [{"op": "iter_throw", "slot": 0}], [{"op": "iter_advance", "slot": 0}, {"op": "iter_close", "slot": 0}],
                               [{"op": "iter_exhaust", "slot": 0}]]))
        for op in rng.choice([[], [], ["read_abs"], ["read_rel"], ["read_abs", "read_rel"], ["read_rel", "read_abs"], ["refresh"],
                              ["copy_swap"]]):
            evs.append({"op": op, "slot": 0, "args": {}})
        if rng.random() < 0.8:
            view = "rel" if view == "abs" else "abs"
    evs.append({"op": "read_abs", "slot": 0, "args": {}})
    evs.append({"op": "read_rel", "slot": 0, "args": {}})
    return evs


def c04_run_one(seed, tier, index):
    rng = random.Random(seed)
    res = RunResult()
    directed = index < len(_DIRECTED) * DIRECTED_REPS
    if directed:
        op, mode = _DIRECTED[index % len(_DIRECTED)]
        spec = music.gen_music(rng, max_notes=6, allow_empty=False)
        init = [{"spec": spec, "mode": mode}]
        knobs = {"lane": "directed"}
    else:
        knobs = _draw_knobs(rng, tier)
        init = _gen_init(rng, knobs)
    pingpong = (not directed) and rng.random() < 0.06
    if pingpong:
        knobs = {"lane": "pingpong"}
        spec = music.gen_music(rng, max_notes=rng.choice([1, 2, 4]), allow_empty=False, horizon=rng.choice([24, 96]),
                               grid=rng.choice([6, 12]))
        if rng.random() < 0.6 and spec["notes"]:
            spec["notes"][0][2] = 0   # first note on tick 0: both views start with the same logical message
        init = [{"spec": spec, "mode": rng.choice(MODES)}]
    world = C04World(init)
    events = []
    viol = None
    if pingpong:
        for ev in _pingpong_events(rng):
            events.append(ev)
            viol = world.apply(ev, len(events) - 1)
            if viol is not None or world.foreign or world.halted:
                break
    elif directed:
        planned = _directed_events(rng, world, op)
        for ev in planned:
            events.append(ev)
            viol = world.apply(ev, len(events) - 1)
            if viol is not None or world.foreign or world.halted:
                break
    else:
        for _ in range(knobs["n_events"]):
            ev = _gen_event(rng, world, knobs)
            # the same operation twice in a row (fresh arguments) - a shape uniform choice rarely produces
            if events and rng.random() < knobs["p_repeat"]:
                prev = events[-1]
                slot_prev = world.slots[prev.get("slot", 0) % len(world.slots)]
                if prev["op"] in OPS and slot_prev.it is None and OPS[prev["op"]][0] in (MUT, VAL, DIRECT):
                    ev = {"op": prev["op"], "slot": prev.get("slot", 0),
                          "args": prev.get("args", {}) if rng.random() < 0.5 else OPS[prev["op"]][1](rng, slot_prev.seq)}
            events.append(ev)
            viol = world.apply(ev, len(events) - 1)
            if viol is not None or world.foreign or world.halted:
                break
    if viol is None and not world.foreign:
        viol = world.finish()
    return _c04_result(res, world, viol, {"engine": "seqworld/C04", "seed": seed, "lane": knobs["lane"],
                                          "init": init, "events": events})


def _c04_result(res, world, viol, trace):
    res.trace = trace
    res.violation = viol
    res.foreign = world.foreign
    res.stats = world.stats
    res.stats[f"lane/{trace.get('lane', 'replay')}_runs"] += 1
    if viol is not None:
        res.stats[f"lane/{trace.get('lane', 'replay')}_violations"] += 1
    res.events = world.log.n
    res.digest = world.log.digest()
    res.abstract = zlib.crc32(repr(world.abstract).encode()) | (len(world.abstract) << 32)
    res.nontrivial = world.mutations > 0 and world.perturbations > 0
    res.log = world.log
    return res


def c04_replay(trace, keep_log=False):
    res = RunResult()
    world = C04World(trace["init"], keep_log=keep_log)
    viol = None
    for i, ev in enumerate(trace["events"]):
        viol = world.apply(ev, i)
        if viol is not None or world.foreign or world.halted:
            break
    if viol is None and not world.foreign:
        viol = world.finish()
    return _c04_result(res, world, viol, trace)


def _simplify_seq_trace(trace):
    """Engine-specific shrink candidates: simpler specs in init and in event arguments, fewer slots."""
    init = trace["init"]
    for i, ini in enumerate(init):
        for s in music.simplify_spec(ini["spec"]):
            t = dict(trace)
            t["init"] = init[:i] + [dict(ini, spec=s)] + init[i + 1:]
            yield t
    if len(init) > 1:
        used = {ev.get("slot", 0) % len(init) for ev in trace["events"]}
        if used == {0}:
            t = dict(trace)
            t["init"] = init[:1]
            yield t
    evs = trace["events"]
    for j, ev in enumerate(evs):
        a = ev.get("args") or {}
        if "spec" in a:
            for s in music.simplify_spec(a["spec"]):
                t = dict(trace)
                t["events"] = evs[:j] + [dict(ev, args=dict(a, spec=s))] + evs[j + 1:]
                yield t
        if "args" in a and isinstance(a["args"], list):
            for k in range(len(a["args"])):
                t = dict(trace)
                t["events"] = evs[:j] + [dict(ev, args=dict(a, args=a["args"][:k] + a["args"][k + 1:]))] + evs[j + 1:]
                yield t
            for k, sub in enumerate(a["args"]):
                if "spec" not in sub:
                    continue
                for s in music.simplify_spec(sub["spec"]):
                    na = a["args"][:k] + [dict(sub, spec=s)] + a["args"][k + 1:]
                    t = dict(trace)
                    t["events"] = evs[:j] + [dict(ev, args=dict(a, args=na))] + evs[j + 1:]
                    yield t
        if "adopt" in ev:
            t = dict(trace)
            e2 = dict(ev)
            del e2["adopt"]
            t["events"] = evs[:j] + [e2] + evs[j + 1:]
            yield t


class C04Engine:
    name = "seqworld/C04"
    RULE = ("one run = one seeded history: 1-2 initial Sequences (freshness state drawn from abs-only / rel-only / both / "
            "Sequence(); content from sparse to dense, incl. 'strummed chord' and almost-quantised shapes), then up to 16 (quick) / 40 "
            "(thorough) events over the full public alphabet (arguments incl. helper-built grids, negative indices, the receiver as its "
            "own meta sequence, Bar() construction, tokenise, operations of the view objects followed by the documented invalidation), "
            "stepped view-iterators, maskable perturbations and - in 40 % of the fault-lane runs - the fault kind `alloc` (the k-th "
            "construction of a Message inside one mutating call fails with MemoryError); the first run "
            "indices (2 per operation and freshness state) are a directed sweep 'every op from every freshness state'; 6 % of the runs are a scripted ping-pong lane that "
            "alternates the two iterators on the same messages with values from tiny pools. distinct_nontrivial counts distinct abstract "
            "schedules (crc of the sequence of (op, freshness-before, iterator phase), content abstracted away) among runs that executed "
            ">=1 mutating step AND >=1 fired perturbation (read / refresh / cache drop / copy-swap).")
    REAL = ["scoda.sequences.sequence.Sequence", "AbsoluteSequence", "RelativeSequence", "Message", "Bar (via sequences_split_bars)",
            "everything they call"]
    STUB = ["nothing is stubbed; the simulator plays the caller"]
    ASSUMPTIONS = [
        "legal histories only (DESIGN 4.3 L1-L6): no mutator or second iterator on a sequence while an iterator is suspended; "
        "edits only to the most recently yielded message; absolute time edits keep the list time-sorted; invalidate_X only while "
        "the other view is fresh; sequence-valued arguments are fresh harness-built values",
        "harness-built content is well-formed, integer-tick, canonical same-tick order",
        "the clean twin runs the same S-Coda code: functional errors common to every freshness state are invisible by design (DESIGN 4.5)",
        "an exception raised identically by subject and clean twin is a foreign failure (belongs to a not-applicable property) and abandons the run",
        "observers read Sequence._abs/_rel/_abs_stale/_rel_stale directly (the anchors' observation point)",
    ]

    @staticmethod
    def run_one(seed, tier, index):
        return c04_run_one(seed, tier, index)

    @staticmethod
    def replay(trace, keep_log=False):
        return c04_replay(trace, keep_log)

    @staticmethod
    def simplify(trace):
        return _simplify_seq_trace(trace)

    @staticmethod
    def sample_kind(r):
        lane = r.trace.get("lane")
        if lane == "baseline":
            return "baseline"
        if lane == "fault" and r.nontrivial:
            if any(k.startswith("reach_iter_end/") for k in r.stats):
                return "fault-with-iterator"
            return "fault"
        return None

    @staticmethod
    def zero_cells(stats):
        out = []
        for op in seqops.ALL_OPS:
            for mode in MODES:
                if stats.get(f"reach_fresh_x_op/{mode}|{op}", 0) == 0:
                    # drop_X from a state where the other view is stale is illegal (L4) and cannot be reached
                    if (op == "drop_abs" and mode == "abs") or (op == "drop_rel" and mode == "rel"):
                        continue
                    out.append(f"{mode}|{op}")
        return out


ENGINES = {"C04": C04Engine}
