"""tokstream: simulator for stateful, chunked tokenisation (C03).

The simulator plays 1-3 *stream clients*. Each owns a piece, a partition of its bar sequence into consecutive
call groups, a chunk-production route and a state dictionary; the clients take turns (seeded scheduler) on ONE
shared tokeniser object. Between two calls of a client the injector may "crash and restart" it: a new tokeniser of
equal configuration, and only a (deep or shallow) copy of the state dictionary survives.

Oracle: detokenise(concatenated chunk tokens) observes the same notes, bar marks, signature in force and duration
as detokenise(tokenise(whole piece in one call on a fresh tokeniser)).
"""
from __future__ import annotations

import copy
import json
import random
import zlib

from scoda.elements.bar import Bar
from scoda.sequences.sequence import Sequence
from scoda.tokenisation.notelike_tokenisation import MultiTrackLargeVocabularyNotelikeTokeniser as Tokeniser

from sim import core, music, observe
from sim.core import RunResult, Violation, EventLog
from sim.observe import piano_roll, bar_marks, timesig_in_force, abs_duration, first_diff

PPQN = 24
ALL_VALUES = [4, 6, 8, 9, 12, 16, 18, 24, 36]
# signatures expressible in eighths within the default range (2..16 eighths)
SIGS = [(4, 4), (3, 4), (2, 4), (6, 8), (2, 2), (5, 4), (3, 8), (8, 8), (12, 8), (7, 8), (2, 8), (4, 8), (1, 4), (5, 8),
        (6, 4), (9, 8), (3, 2), (16, 8), (7, 4)]


def bar_len(n, d):
    return PPQN * 4 * n // d


# ------------------------------------------------------------------ piece -> sequences

def _bar_spec(bar, track, sig_msg):
    spec = {"notes": [[0, p, on, dur, vel] for p, on, dur, vel in bar["tracks"][track]], "tsigs": [], "keys": [],
            "progs": [], "ccs": [], "tail": 0, "wsplit": 0}
    _add_extras(spec, bar, track, 0)
    return spec


def _add_extras(spec, bar, track, t0):
    """Messages every real chunk carries and the tokeniser is documented to ignore (key signatures, program and control
    changes): [track, offset in bar, kind, a, b]."""
    for tr, off, kind, a, b in bar.get("extras", []):
        if tr != track:
            continue
        if kind == "key":
            spec["keys"].append([t0 + off, a])
        elif kind == "prog":
            spec["progs"].append([t0 + off, 0, a])
        else:
            spec["ccs"].append([t0 + off, 0, a, b])


def extras_tracks(piece):
    return {e[0] for b in piece["bars"] for e in b.get("extras", [])}


def whole_specs(piece):
    """One spec per track for the whole piece; signature events on track 0 at bar starts where the signature changes
    (and optionally an explicit first signature)."""
    nt = piece["ntracks"]
    specs = [{"notes": [], "tsigs": [], "keys": [], "progs": [], "ccs": [], "tail": 0, "wsplit": 0} for _ in range(nt)]
    t0 = 0
    prev = None
    for k, bar in enumerate(piece["bars"]):
        n, d = bar["sig"]
        if (prev is None and (piece.get("explicit_first") or (n, d) != (4, 4))) or (prev is not None and (n, d) != prev):
            specs[0]["tsigs"].append([t0, n, d])
        prev = (n, d)
        for tr in range(nt):
            for p, on, dur, vel in bar["tracks"][tr]:
                specs[tr]["notes"].append([0, p, on + t0, dur, vel])
            _add_extras(specs[tr], bar, tr, t0)
        t0 += bar_len(n, d)
    total = t0
    tp = piece.get("tail_partial")
    # A track that carries ignored messages is always made whole bars (padded to the bar line, in the whole piece and in every
    # group built from it): silence is visible to the tokeniser only as a *trailing* rest of a track, so silence that is
    # followed by nothing but an ignored message would be part of the piece for Sequence.split (which materialises it up to
    # the cut) and not for the single call - two inputs that are not the same bar sequence, which is the harness's doing
    padded_for_extras = set(piece["extras_tracks"]) if "extras_tracks" in piece else extras_tracks(piece)
    for tr in range(nt):
        # `tail` is measured from the last message of the track, whatever its type
        end = max([x[2] + x[3] for x in specs[tr]["notes"]] + [x[0] for x in specs[tr]["tsigs"]]
                  + [x[0] for f in ("keys", "progs", "ccs") for x in specs[tr][f]], default=0)
        if (piece.get("pad_tracks", [False] * nt)[tr] or tr in padded_for_extras) and end < total:
            specs[tr]["tail"] = total - end
        elif tp and tp[0] == tr and piece["bars"]:
            # a trailing rest that ends INSIDE the last bar (neither a note nor a cap on the bar line closes that bar)
            last_len = bar_len(*piece["bars"][-1]["sig"])
            target = total - last_len + tp[1]           # tp[1]: ticks into the last bar, on the configuration's rest grid
            if target > end and target < total:
                specs[tr]["tail"] = target - end
            elif target <= end < total and total - last_len <= end:
                # an ignored message already sits at or behind the target inside the last bar: the bar is made whole instead
                specs[tr]["tail"] = total - end
    return specs, total


def build_bars_R1(piece):
    """bars[track][k]: harness-built bar content -> Bar (which pads to the exact length and carries its signature)."""
    out = [[] for _ in range(piece["ntracks"])]
    for bar in piece["bars"]:
        n, d = bar["sig"]
        for tr in range(piece["ntracks"]):
            spec = _bar_spec(bar, tr, None)
            seq = music.build_sequence(spec, bar.get("mode", "abs")) if (spec["notes"] or spec["keys"] or spec["progs"]
                                                                        or spec["ccs"]) else Sequence()
            out[tr].append(Bar(seq, n, d))
    return out


def build_whole(piece):
    specs, total = whole_specs(piece)
    return [music.build_sequence(s, "abs") if _has_content(s) else Sequence() for s in specs], total


def _has_content(sp):
    return bool(sp["notes"] or sp["tsigs"] or sp["tail"] or sp["keys"] or sp["progs"] or sp["ccs"])


def r4_legal(piece, cuts):
    """Unpadded group sequences are 'consecutive chunks of whole bars' only if every group but the last reaches into its last
    bar: by a note there, by a trailing rest that ends inside it, or because a track is padded to the bar line. (The generator
    only draws such pieces; the shrinker may not leave the domain either.)"""
    nt = piece["ntracks"]
    gt = piece.get("group_tails") or {}
    padded = extras_tracks(piece)
    groups = groups_of(len(piece["bars"]), cuts)
    for gi_, (lo, hi) in enumerate(groups):
        last = piece["bars"][hi - 1]
        if padded or any(last["tracks"][tr] for tr in range(nt)):
            continue
        # the last group reaches into its last bar through the piece's own trailing rest (which the single call sees too);
        # if it does not, no EARLIER group may make a trailing empty bar real that the single call never hears of
        tp = gt.get(str(hi)) if gi_ < len(groups) - 1 else piece.get("tail_partial")
        L = bar_len(*last["sig"])
        if not tp or not (0 <= tp[0] < nt) or not (0 < tp[1] < L):
            return False
    return True


def build_bars_R2(piece):
    seqs, _ = build_whole(piece)
    return Sequence.sequences_split_bars(seqs, 0)


def groups_of(nbars, cuts):
    cs = sorted({c for c in cuts if 0 < c < nbars})
    edges = [0] + cs + [nbars]
    return [(edges[i], edges[i + 1]) for i in range(len(edges) - 1)]


def shared_bars(piece, route):
    """piece["shared"] (R1 / R2 only): the single call and the chunked calls are fed from the SAME Bar objects, the way a user
    comparing the two would do it - Bar.to_sequence / concatenate share the bars' Message objects by design, so the single
    call (which runs first and sets the channels of its inputs in place) reaches into the bars. With "abs" every bar has had
    its absolute view built by a public read before anything is tokenised."""
    bars = build_bars_R1(piece) if route == "R1" else build_bars_R2(piece)
    if piece.get("shared") == "abs":
        for track_bars in bars:
            for b in track_bars:
                b.sequence.get_sequence_duration()
    return bars


def chunks_for(piece, route, cuts, bars=None):
    """Returns (list of chunks, each a list of one Sequence per track). `bars`: the Bar objects the single call was built
    from (shared mode); a group of one bar is then that bar's own sequence object."""
    nt = piece["ntracks"]
    nb = len(piece["bars"])
    groups = groups_of(nb, cuts)
    if route in ("R1", "R2"):
        shared = bars is not None
        if bars is None:
            bars = build_bars_R1(piece) if route == "R1" else build_bars_R2(piece)
        nb2 = min(len(b) for b in bars)
        groups = groups_of(nb2, cuts)
        out = []
        for lo, hi in groups:
            if shared and hi - lo == 1:
                out.append([bars[tr][lo].sequence for tr in range(nt)])
            else:
                out.append([Bar.to_sequence(bars[tr][lo:hi]) for tr in range(nt)])
        return out
    if route == "R4":
        # harness-built sequences per group, exactly as long as their content (no padding to the bar line, no cap): the
        # tokeniser's own end-of-call bar closing has to do all the work
        out = []
        gt = piece.get("group_tails") or {}
        for gi_, (lo, hi) in enumerate(groups):
            sub = dict(piece, bars=piece["bars"][lo:hi], explicit_first=True, pad_tracks=[False] * nt,
                       extras_tracks=sorted(extras_tracks(piece)),
                       tail_partial=(piece.get("tail_partial") if gi_ == len(groups) - 1 else gt.get(str(hi))))
            specs, _ = whole_specs(sub)
            out.append([music.build_sequence(sp, "abs") if _has_content(sp) else Sequence() for sp in specs])
        return out
    # R3: whole sequences cut with Sequence.split at the group boundaries; later chunks carry no signature message
    seqs, total = build_whole(_r3_piece(piece))
    lens = [sum(bar_len(*piece["bars"][k]["sig"]) for k in range(lo, hi)) for lo, hi in groups]
    per_track = []
    for tr in range(nt):
        pieces = seqs[tr].split(lens[:-1]) if len(lens) > 1 else [seqs[tr]]
        pieces = list(pieces) + [Sequence() for _ in range(len(lens) - len(pieces))]
        per_track.append(pieces)
    return [[per_track[tr][g] for tr in range(nt)] for g in range(len(groups))]


def whole_for(piece, route):
    """The piece as one call's input. R1/R2: concatenation of all bars (freshly built, nothing shared with the chunks)."""
    nt = piece["ntracks"]
    if route == "R1":
        bars = build_bars_R1(piece)
        return [Bar.to_sequence(bars[tr]) for tr in range(nt)]
    if route == "R2":
        bars = build_bars_R2(piece)
        return [Bar.to_sequence(bars[tr]) for tr in range(nt)]
    if route == "R4":
        return build_whole(dict(piece, pad_tracks=[False] * nt))[0]
    return build_whole(_r3_piece(piece))[0]


def _r3_piece(piece):
    """R3 pads the signature-carrying track to the full length: Sequence.split drops a signature that is the very last
    message of its source (nothing follows it to be carried over) - a defect of split conservation (C08, not applicable
    here) that would otherwise make the *chunk production* lose a signature the single call still sees."""
    pads = list(piece.get("pad_tracks", [False] * piece["ntracks"]))
    specs, total = whole_specs(piece)
    s0 = specs[0]
    last_note_end = max([x[2] + x[3] for x in s0["notes"]], default=0)
    last_sig = max([x[0] for x in s0["tsigs"]], default=-1)
    if last_sig >= last_note_end:
        pads[0] = True      # a signature would be the very last message of track 0: pad so that split keeps it
    return dict(piece, pad_tracks=pads)


# ------------------------------------------------------------------ tokeniser

def make_tokeniser(cfg):
    return Tokeniser(ppqn=cfg.get("ppqn"), num_tracks=cfg["ntracks"], pitch_range=tuple(cfg["pitch_range"]),
                     step_sizes=list(cfg["step_sizes"]) if cfg.get("step_sizes") else None,
                     time_signature_range=tuple(cfg.get("ts_range", (2, 16))),
                     note_values=list(cfg["note_values"]) if cfg.get("note_values") else None,
                     velocity_bins=cfg["velocity_bins"],
                     flag_running_values=cfg["flags"][0], flag_fuse_track=cfg["flags"][1],
                     flag_fuse_value=cfg["flags"][2], flag_fuse_velocity=cfg["flags"][3],
                     flag_simplify_time_signature=cfg["flags"][4])


def observe_detok(seqs, simplify):
    out = []
    default = (4, 4) if simplify else (8, 8)
    for k, s in enumerate(seqs):
        msgs = s.abs._messages
        notes, odd = piano_roll(msgs)
        notes = [(p, on, dur, vel) for (_, p, on, dur, vel) in notes]
        out.append({"notes": notes, "odd": odd, "bars": bar_marks(msgs), "dur": abs_duration(msgs),
                    "tsig": timesig_in_force(msgs, default) if k == 0 else None})
    return out


def interpret_stream(tokens, cfg):
    """Harness-side reading of a token stream (independent of detokenise, tolerant of non-integer velocity fields such as
    'vel_96.0'): per track the notes (pitch, onset, value, velocity field), the bar marks, the signature in force and the
    time reached. Used for both streams alike, so the comparison stays relative."""
    nt = cfg["ntracks"]
    notes = [[] for _ in range(nt)]
    marks = []
    sig_pts = []
    t = 0
    t_bar = 0
    num, den = 8, 8
    cap_total = PPQN * 4 * num // den
    cap_rem = cap_total
    trk, val, vel = 0, 24, "127"
    order = {"trk": 0, "val": 1, "vel": 2, "pit": 3}
    for tok in tokens:
        parts = [p.split("_") for p in tok.split("-")]
        parts.sort(key=lambda p: order.get(p[0], -1))
        for p in parts:
            k = p[0]
            if k in ("pad", "sta", "sto"):
                continue
            if k == "bar":
                t += cap_rem
                t_bar = 0
                cap_rem = cap_total
                marks.append(t)
            elif k == "rst":
                r = int(p[1])
                t += r
                t_bar += r
                cap_rem -= r
            elif k == "trk":
                trk = int(p[1])
            elif k == "val":
                val = int(p[1])
            elif k == "vel":
                vel = p[1]
            elif k == "pit":
                if 0 <= trk < nt:
                    notes[trk].append((int(p[1]), t, val, vel))
            elif k == "tsg":
                if t_bar == 0:
                    num, den = int(p[1]), int(p[2])
                    cap_total = PPQN * 4 * num // den
                    cap_rem = cap_total
                    sig_pts.append((t, (num, den)))
    from sim.observe import function_in_force
    return {"notes": [sorted(n) for n in notes], "bars": marks, "tsig": function_in_force(sig_pts, (8, 8)), "end": t}


# ------------------------------------------------------------------ world

class Client:
    __slots__ = ("piece", "route", "cuts", "chunks", "next", "state", "tokens", "tok", "restarts", "reference",
                 "boundary_probe", "ref_stream")

    def __init__(self, piece, route, cuts):
        self.piece = piece
        self.route = route
        self.cuts = cuts
        self.chunks = None
        self.next = 0
        self.state = {}
        self.tokens = []
        self.tok = None
        self.restarts = 0
        self.reference = None
        self.ref_stream = None


class TokWorld:
    def __init__(self, init, keep_log=False):
        self.cfg = init["cfg"]
        self.insert_bar = init["cfg"].get("insert_bar_token", True)
        self.log = EventLog(keep_log)
        self.stats = core.Counter()
        self.abstract = []
        self.foreign = None
        self.faults = 0
        self.interleavings = 0
        self.shared = make_tokeniser(self.cfg)
        self.clients = []
        self.last_client = None
        for c in init["clients"]:
            cl = Client(c["piece"], c["route"], c["cuts"])
            cl.tok = self.shared
            self.clients.append(cl)

    def prepare(self):
        """Reference run (no chunking, fresh tokeniser) and chunk production. Any exception here is foreign: the
        single-call reference itself does not accept the piece (C01's business, not C03's)."""
        for ci, cl in enumerate(self.clients):
            try:
                ref_tok = make_tokeniser(self.cfg)
                bars = None
                if cl.piece.get("shared") and cl.route in ("R1", "R2"):
                    bars = shared_bars(cl.piece, cl.route)
                    whole = [Bar.to_sequence(bars[tr]) for tr in range(cl.piece["ntracks"])]
                    self.stats[f"reach_shared/{cl.piece['shared']}"] += 1
                else:
                    whole = whole_for(cl.piece, cl.route)
                toks = ref_tok.tokenise(whole, insert_bar_token=self.insert_bar)
                cl.ref_stream = interpret_stream(toks, self.cfg)
                try:
                    cl.reference = observe_detok(ref_tok.detokenise(toks), self.cfg["flags"][4])
                except core.RunTimeout:
                    raise
                except Exception as e:
                    # detokenise refuses e.g. 'vel_96.0' (velocity bins > 1): C01/C02's business. The stream is then judged
                    # through the harness-side interpreter only.
                    cl.reference = None
                    self.stats[f"reach_detok/reference_refused:{type(e).__name__}"] += 1
                if cl.route == "R4" and not r4_legal(cl.piece, cl.cuts):
                    self.foreign = "harness:groups-are-not-whole-bars"
                    self.log.add("prepare", ci, "foreign", self.foreign)
                    return False
                cl.chunks = chunks_for(cl.piece, cl.route, cl.cuts, bars=bars)
            except core.RunTimeout:
                raise
            except Exception as e:
                self.foreign = f"reference:{type(e).__name__}"
                self.log.add("prepare", ci, "foreign", self.foreign)
                return False
            self.stats[f"reach_groups/{min(len(cl.chunks), 6)}"] += 1
            self.stats[f"reach_route/{cl.route}"] += 1
        return True

    def apply(self, ev, idx):
        ci = ev.get("client", 0) % len(self.clients)
        cl = self.clients[ci]
        if cl.next >= len(cl.chunks):
            self.log.add("call", ci, "skip:done")
            return None
        fault = ev.get("fault", "none")
        if cl.next == 0:
            fault = "none" if fault in ("deepcopy", "dictcopy", "json") else fault
        if fault == "new_tok":
            cl.tok = make_tokeniser(self.cfg)
            cl.state = copy.deepcopy(cl.state)
            cl.restarts += 1
        elif fault == "deepcopy":
            cl.state = copy.deepcopy(cl.state)
        elif fault == "dictcopy":
            cl.state = dict(cl.state)
        elif fault == "json":
            # the state dictionary persisted as JSON and read back after a crash: only what JSON carries survives
            cl.tok = make_tokeniser(self.cfg)
            cl.state = json.loads(json.dumps(cl.state))
            cl.restarts += 1
        elif fault == "back_to_shared":
            cl.tok = self.shared
        elif fault == "other_method":
            # a training loop looks at what it has so far between two chunk calls: none of this may touch the stream state
            for fn in (cl.tok.get_info, cl.tok.detokenise):
                try:
                    fn(list(cl.tokens))
                except core.RunTimeout:
                    raise
                except Exception:
                    pass
            try:
                cl.tok.tokenise([Sequence() for _ in range(self.cfg["ntracks"])], insert_bar_token=self.insert_bar)
            except core.RunTimeout:
                raise
            except Exception:
                pass
        if fault != "none":
            self.faults += 1
            self.stats[f"fault/{fault}"] += 1
        if self.last_client is not None and self.last_client != ci and cl.tok is self.shared and cl.next > 0:
            self.interleavings += 1
            self.stats["fault/other_client_used_same_tokeniser_between_calls"] += 1
        self.abstract.append(zlib.crc32(f"{ci}|{fault}|{cl.next}|{cl.route}".encode()))
        chunk = cl.chunks[cl.next]
        try:
            toks = cl.tok.tokenise(chunk, insert_bar_token=self.insert_bar, state_dict=cl.state)
        except core.RunTimeout:
            raise
        except Exception as e:
            v = Violation("CHUNK-RAISED", f"client {ci} ({cl.route}) chunk {cl.next}/{len(cl.chunks)}: tokenise raised "
                          f"{type(e).__name__}: {e} although the single-call reference accepted the piece",
                          {"route": cl.route, "kind": "raised"}, idx)
            self.log.add("call", ci, "viol", v.cls)
            return v
        self._boundary_probe(cl, toks)
        cl.tokens.extend(toks)
        cl.next += 1
        if cl.tok is self.shared:
            self.last_client = ci
        self.log.add("call", ci, fault, len(toks), core.digest_of(toks), core.digest_of(sorted(cl.state.items())))
        if cl.next == len(cl.chunks):
            return self._judge(ci, cl, idx)
        return None

    def _boundary_probe(self, cl, toks):
        if cl.next > 0 and cl.tokens and toks:
            self.stats["reach_boundary/calls_after_first"] += 1

    def _judge(self, ci, cl, idx):
        key = {"route": cl.route}
        # 1. harness-side reading of both streams (also carries the velocity field, whatever detokenise thinks of it)
        try:
            mine = interpret_stream(cl.tokens, self.cfg)
        except Exception as e:
            return Violation("STREAM-UNREADABLE", f"client {ci} ({cl.route}): the chunked token stream cannot be read: "
                             f"{type(e).__name__}: {e}", dict(key, kind="stream"), idx)
        for fld, cls in (("notes", "NOTES"), ("bars", "BARS"), ("tsig", "SIGNATURE"), ("end", "DURATION")):
            if mine[fld] != cl.ref_stream[fld]:
                return Violation("CHUNK-" + cls, f"client {ci} route {cl.route} cuts {cl.cuts} restarts {cl.restarts}: token streams "
                                 f"read differently, {fld} (chunked vs single call): "
                                 f"{first_diff(mine[fld], cl.ref_stream[fld])}"[:600], dict(key, kind=fld), idx)
        self.stats["reach_judged/streams_by_interpreter"] += 1
        if cl.reference is None:
            return None
        # 2. the library's own detokenise on both streams
        try:
            tok = make_tokeniser(self.cfg)
            got = observe_detok(tok.detokenise(cl.tokens), self.cfg["flags"][4])
        except core.RunTimeout:
            raise
        except Exception as e:
            return Violation("DETOK-RAISED", f"client {ci} ({cl.route}): detokenise of the chunked stream raised "
                             f"{type(e).__name__}: {e}", dict(key, kind="detok"), idx)
        ref = cl.reference
        for tr, (g, r) in enumerate(zip(got, ref)):
            for fld, cls in (("notes", "NOTES"), ("bars", "BARS"), ("tsig", "SIGNATURE"), ("dur", "DURATION"), ("odd", "NOTES")):
                if g[fld] != r[fld]:
                    return Violation("CHUNK-" + cls, f"client {ci} route {cl.route} cuts {cl.cuts} restarts {cl.restarts}: track {tr} "
                                     f"{fld} differ (chunked vs single call): {first_diff(g[fld], r[fld])}"[:600],
                                     dict(key, kind=fld), idx)
        self.stats["reach_judged/streams"] += 1
        return None

    def finish(self, idx):
        for ci, cl in enumerate(self.clients):
            while cl.next < len(cl.chunks):
                v = self.apply({"client": ci, "fault": "none"}, idx)
                if v is not None:
                    return v
        return None


# ------------------------------------------------------------------ generation

def gen_piece(rng, ntracks, values, pitch_range, nbars=None, tier="quick", grids=None, ts_range=(2, 16)):
    nbars_given = nbars
    nbars = nbars or (rng.choice([1, 2, 2, 3, 3, 3, 4, 4, 5, 6]) if tier == "quick" else
                      rng.choice([1, 2, 3, 3, 4, 4, 5, 6, 7, 8, 10]))
    # a small palette per piece, so that a signature is left and *returned to* (A -> B -> A) often
    sigs_ok = [sg for sg in SIGS if ts_range[0] <= sg[0] * 8 // sg[1] <= ts_range[1]
               and (grids is None or bar_len(*sg) % max(grids) == 0)]
    palette = (rng.sample(sigs_ok[:12], min(len(sigs_ok[:12]), rng.choice([2, 2, 3]))) if rng.random() < 0.75 else list(sigs_ok))
    sig = rng.choice(palette)
    p_change = rng.choice([0.0, 0.2, 0.5, 0.8])
    bars = []
    lo, hi = pitch_range
    pitches = [sorted({rng.randrange(lo, hi + 1) for _ in range(rng.randrange(1, 4))}) for _ in range(ntracks)]
    track_len = [rng.choice([nbars, nbars, rng.randrange(0, nbars + 1)]) for _ in range(ntracks)]
    track_len[rng.randrange(ntracks)] = nbars
    grid = rng.choice(grids) if grids else rng.choice([2, 4, 6, 6, 12])
    # real music repeats itself: a bar may be a literal repeat of an earlier bar (content of every track and signature),
    # and a piece often lives on two or three note values and velocities
    p_repeat_bar = rng.choice([0.0, 0.3, 0.5, 0.7])
    if rng.random() < 0.6:
        values = rng.sample(values, min(len(values), rng.choice([1, 2, 3])))
    vel_palette = [rng.randrange(1, 128) for _ in range(rng.choice([1, 2, 8]))]
    # sparse pieces (most bars empty: rests that cross a bar line and span whole bars) and a small palette of onsets, measured
    # from the start or from the END of the bar - the same "room left in the bar" then recurs under different signatures, which
    # is where anything remembered about a rest in one signature meets the other one
    p_empty = rng.choice([0.25, 0.25, 0.25, 0.6, 0.85])
    p_extras = rng.choice([0, 0, 0, 0.3, 0.8])
    # "downbeat bars": every note of the bar starts on the bar line, only some tracks play, and where the bar is as long as a
    # note value one note fills it exactly - no rest is ever emitted inside such a bar, so whether it is closed at all rests on
    # the tokeniser's own book-keeping (the shape behind fix 8ea1829)
    p_downbeat = rng.choice([0, 0, 0.15, 0.4])
    onset_palette = [(rng.random() < 0.5, grid * rng.randrange(0, 9)) for _ in range(rng.choice([1, 2, 2]))] \
        if rng.random() < 0.4 else None
    # "sparse on the beat": a longer piece of two signatures, about every second bar empty, one or two notes per sounding bar,
    # onsets on whole beats - the shape in which two rests in different signatures agree in length and in room left
    sparse = nbars_given is None and rng.random() < 0.13
    if sparse:
        nbars = rng.randrange(6, 11)
        track_len = [nbars if t == 0 or rng.random() < 0.5 else rng.randrange(0, nbars + 1) for t in range(ntracks)]
        quarter = [sg for sg in palette if sg[1] == 4] or [sg for sg in sigs_ok if sg[1] == 4]
        if len(quarter) < 2:
            quarter = [sg for sg in sigs_ok if sg[1] == 4][:3] or palette
        palette = quarter[:3]
        sig = rng.choice(palette)
        p_change = rng.choice([0.2, 0.35, 0.5])
        p_repeat_bar = 0.0
        p_empty = rng.choice([0.4, 0.55])
        grid = 24 if bar_len(*sig) % 24 == 0 and (grids is None or 24 % max(grids) == 0) else grid
        onset_palette = None
    for k in range(nbars):
        if k > 0 and rng.random() < p_repeat_bar:
            src = bars[rng.randrange(len(bars))]
            bars.append({"sig": list(src["sig"]), "tracks": [[list(n) for n in t] for t in src["tracks"]],
                         "mode": rng.choice(["abs", "rel", "both"])})
            sig = tuple(src["sig"])
            continue
        if k > 0 and rng.random() < p_change:
            sig = rng.choice([x for x in palette if x != sig] or palette)
        L = bar_len(*sig)
        tracks = []
        if p_downbeat and rng.random() < p_downbeat:
            # often a short bar of another signature thrown in (4/4 | 3/8 | 4/4), as long as one note value
            short = [sg for sg in palette + [x for x in sigs_ok if bar_len(*x) in values][:3] if bar_len(*sg) in values]
            if short and rng.random() < 0.5:
                sig = rng.choice(short)
                L = bar_len(*sig)
            playing = [tr for tr in range(ntracks) if k < track_len[tr] and rng.random() < 0.5] or \
                      [rng.choice([tr for tr in range(ntracks) if k < track_len[tr]] or [0])]
            fill = [v for v in values if v == L]
            for tr in range(ntracks):
                notes = []
                if tr in playing:
                    for p in rng.sample(pitches[tr], rng.randrange(1, len(pitches[tr]) + 1)):
                        fits = [v for v in values if v <= L]
                        if fits:
                            notes.append([p, 0, fill[0] if fill and rng.random() < 0.6 else rng.choice(fits), rng.choice(vel_palette)])
                    notes.sort(key=lambda x: (x[1], x[0]))
                tracks.append(notes)
            bars.append({"sig": [sig[0], sig[1]], "tracks": tracks, "mode": rng.choice(["abs", "rel", "both"])})
            continue
        for tr in range(ntracks):
            notes = []
            if k < track_len[tr] and rng.random() > p_empty:
                last_end = {}
                for _ in range(rng.randrange(1, 5) if onset_palette is None and not sparse else rng.randrange(1, 3)):
                    p = rng.choice(pitches[tr])
                    dur = rng.choice(values)
                    lo_i = -(-last_end.get(p, 0) // grid)
                    hi_i = (L - dur) // grid
                    if hi_i < lo_i:
                        continue
                    on = grid * rng.randrange(lo_i, hi_i + 1)
                    if onset_palette is not None:
                        from_end, off = rng.choice(onset_palette)
                        cand = (L - dur - off) if from_end else off
                        if cand % grid == 0 and lo_i * grid <= cand <= hi_i * grid:
                            on = cand
                    notes.append([p, on, dur, rng.choice(vel_palette)])
                    last_end[p] = on + dur
                notes.sort(key=lambda x: (x[1], x[0]))
            tracks.append(notes)
        bars.append({"sig": [sig[0], sig[1]], "tracks": tracks, "mode": rng.choice(["abs", "rel", "both"])})
        if p_extras and rng.random() < p_extras:
            ex = []
            for _ in range(rng.randrange(1, 3)):
                tr = rng.randrange(ntracks)
                off = rng.choice([0, 0, grid * rng.randrange(0, max(1, L // grid))])
                kind = rng.choice(["key", "prog", "cc", "cc"])
                ex.append([tr, off, kind, rng.choice(music.KEYS) if kind == "key" else rng.randrange(0, 120), rng.randrange(0, 128)])
            bars[-1]["extras"] = ex
    out = {"ntracks": ntracks, "bars": bars, "explicit_first": rng.random() < 0.5,
           "pad_tracks": [rng.random() < 0.3 for _ in range(ntracks)]}
    if sparse:
        out["shape"] = "sparse"
    return out


def gen_cuts(rng, piece):
    nb = len(piece["bars"])
    shape = rng.choice(["uniform", "uniform", "uniform", "singletons", "singletons", "one", "at_changes", "around_empty",
                        "after_changes"])
    if piece.get("shape") == "sparse" and rng.random() < 0.4:
        # silent bars as calls of their own, again and again with the same input
        shape = rng.choice(["singletons", "around_empty"])
    if nb <= 1 or shape == "one":
        return []
    if shape == "singletons":
        return list(range(1, nb))
    if shape == "at_changes":
        return [k for k in range(1, nb) if piece["bars"][k]["sig"] != piece["bars"][k - 1]["sig"]]
    if shape == "after_changes":
        # the bar that brings a new signature is the LAST bar of its group (the change sits at an inner bar line of the call)
        cuts = {k + 1 for k in range(1, nb - 1) if piece["bars"][k]["sig"] != piece["bars"][k - 1]["sig"]}
        return sorted(cuts | {k for k in range(1, nb) if rng.random() < 0.2})
    if shape == "around_empty":
        cuts = set()
        for k, b in enumerate(piece["bars"]):
            if all(not t for t in b["tracks"]):
                if k > 0:
                    cuts.add(k)
                if k + 1 < nb:
                    cuts.add(k + 1)
        return sorted(cuts)
    return [k for k in range(1, nb) if rng.random() < 0.5]


def gen_cfg(rng):
    ntracks = rng.choice([1, 1, 2, 2, 3, 4])
    values = sorted(rng.sample(ALL_VALUES, rng.randrange(2, len(ALL_VALUES) + 1))) if rng.random() < 0.4 else list(ALL_VALUES)
    lo = rng.choice([21, 36, 48, 60])
    hi = rng.choice([72, 84, 96, 108])
    step_sizes, grids = rng.choice([(None, None), (None, None), (None, None), ([6, 12, 24], [6, 12]), ([2, 4, 8, 16], None),
                                    ([2, 6, 24], None), ([12, 24], [12])])
    return {"ntracks": ntracks, "pitch_range": [lo, hi], "note_values": values, "step_sizes": step_sizes, "grids": grids,
            "ts_range": rng.choice([(2, 16), (2, 16), (1, 24), (2, 14)]), "ppqn": rng.choice([None, None, 24]),
            "velocity_bins": 1 if rng.random() < 0.7 else rng.choice([2, 4, 8]),
            "flags": [rng.random() < 0.6, rng.random() < 0.5, rng.random() < 0.5, rng.random() < 0.5, rng.random() < 0.7],
            "insert_bar_token": rng.random() < 0.85}


def tok_run_one(seed, tier, index):
    rng = random.Random(seed)
    # a side stream for choices added later: the main stream (and with it every run found so far) stays as it was
    side = random.Random(f"c03-side:{seed}")
    cfg = gen_cfg(rng)
    lane = "baseline" if rng.random() < 0.15 else "fault"
    nclients = 1 if (lane == "baseline" or rng.random() < 0.5) else rng.choice([2, 2, 3] if tier == "quick" else [2, 3, 4])
    clients = []
    for ci in range(nclients):
        if ci > 0 and rng.random() < 0.3:
            # another stream playing (almost) the same material on the same tokeniser
            base = clients[rng.randrange(len(clients))]["piece"]
            piece = json.loads(json.dumps(base))
            piece.pop("tail_partial", None)     # measured into the base's last bar and groups
            piece.pop("group_tails", None)
            if rng.random() < 0.5 and len(piece["bars"]) > 1:
                rng.shuffle(piece["bars"])
        else:
            piece = gen_piece(rng, cfg["ntracks"], cfg["note_values"], cfg["pitch_range"], tier=tier, grids=cfg.get("grids"),
                              ts_range=cfg.get("ts_range", (2, 16)))
        route = rng.choice(["R1", "R2", "R3", "R3", "R4"])
        cuts = gen_cuts(rng, piece)
        if route == "R4":
            # unpadded group sequences are 'chunks of whole bars' only if each group's last bar holds a note (otherwise
            # the sequence simply ends before its last bar)
            gs = groups_of(len(piece["bars"]), cuts)
            g_rest = max(cfg["grids"]) if cfg.get("grids") else 2

            def _into(bar_index):
                L = bar_len(*piece["bars"][bar_index]["sig"])
                return g_rest * rng.randrange(1, max(2, L // g_rest))
            # a piece derived from another client's (same material, bars shuffled) must not keep that one's trailing rest: it
            # was measured into another last bar
            piece.pop("tail_partial", None)
            if rng.random() < 0.4:
                piece["tail_partial"] = [rng.randrange(piece["ntracks"]), _into(len(piece["bars"]) - 1)]
            has = [any(piece["bars"][hi - 1]["tracks"][tr] for tr in range(piece["ntracks"])) for lo, hi in gs]
            # a middle group whose last bar is note-less reaches into that bar only by a trailing rest on some track
            piece["group_tails"] = {}
            for (lo, hi), h in list(zip(gs, has))[:-1]:
                if not h or rng.random() < 0.15:
                    piece["group_tails"][str(hi)] = [rng.randrange(piece["ntracks"]), _into(hi - 1)]
            ok = all(h or str(hi) in piece["group_tails"] for (lo, hi), h in list(zip(gs, has))[:-1]) and \
                (has[-1] or piece.get("tail_partial") is not None)
            if not ok:
                route = "R3"
                piece.pop("tail_partial", None)
                piece.pop("group_tails", None)
        piece.pop("shared", None)
        if route in ("R1", "R2") and side.random() < 0.4:
            piece["shared"] = side.choice(["abs", "abs", "plain"])
        clients.append({"piece": piece, "route": route, "cuts": cuts})
    init = {"cfg": cfg, "clients": clients}
    world = TokWorld(init)
    res = RunResult()
    events = []
    viol = None
    if world.prepare():
        p_fault = 0.0 if lane == "baseline" else rng.choice([0.1, 0.3, 0.6])
        total_calls = sum(len(c.chunks) for c in world.clients)
        for _ in range(total_calls + 2):
            live = [i for i, c in enumerate(world.clients) if c.next < len(c.chunks)]
            if not live:
                break
            ci = rng.choice(live)
            fault = "none"
            if rng.random() < p_fault:
                fault = rng.choice(["new_tok", "new_tok", "deepcopy", "dictcopy", "back_to_shared", "json", "other_method"])
            ev = {"client": ci, "fault": fault}
            events.append(ev)
            viol = world.apply(ev, len(events) - 1)
            if viol is not None:
                break
        if viol is None:
            viol = world.finish(len(events))
    return _result(res, world, viol, {"engine": "tokstream/C03", "seed": seed, "lane": lane, "init": init, "events": events})


def _result(res, world, viol, trace):
    res.trace = trace
    res.violation = viol
    res.foreign = world.foreign
    res.stats = world.stats
    lane = trace.get("lane", "replay")
    res.stats[f"lane/{lane}_runs"] += 1
    if viol is not None:
        res.stats[f"lane/{lane}_violations"] += 1
    res.events = world.log.n
    res.digest = world.log.digest()
    res.abstract = zlib.crc32(repr(world.abstract).encode()) | (len(world.abstract) << 32)
    multi = any(c.chunks is not None and len(c.chunks) > 1 for c in world.clients)
    res.nontrivial = multi and (world.faults > 0 or world.interleavings > 0) and not world.foreign
    if world.foreign is None:
        _probes(world, res.stats)
    res.log = world.log
    return res


def _probes(world, stats):
    for cl in world.clients:
        if cl.chunks is None:
            continue
        nb = len(cl.piece["bars"])
        groups = groups_of(nb, cl.cuts)
        starts = {lo for lo, hi in groups if lo > 0}
        for k in range(1, nb):
            if cl.piece["bars"][k]["sig"] != cl.piece["bars"][k - 1]["sig"]:
                if k in starts:
                    stats["reach_sig/change_exactly_at_chunk_start"] += 1
                else:
                    stats["reach_sig/change_strictly_inside_chunk"] += 1
        for lo, hi in groups:
            stats[f"reach_groupsize/{min(hi - lo, 4)}"] += 1
            for k in (lo, hi - 1):
                if all(not t for t in cl.piece["bars"][k]["tracks"]):
                    stats["reach_empty/empty_bar_at_chunk_edge"] += 1
        if cl.restarts:
            stats["reach_restart/streams_with_restart"] += 1
        f = world.cfg["flags"]
        stats[f"reach_flags/{''.join('1' if x else '0' for x in f)}x{world.cfg['ntracks']}"] += 1


def tok_replay(trace, keep_log=False):
    world = TokWorld(trace["init"], keep_log=keep_log)
    res = RunResult()
    viol = None
    if world.prepare():
        for i, ev in enumerate(trace["events"]):
            viol = world.apply(ev, i)
            if viol is not None:
                break
        if viol is None:
            viol = world.finish(len(trace["events"]))
    return _result(res, world, viol, trace)


def _simplify(trace):
    init = trace["init"]
    clients = init["clients"]
    # fewer clients
    if len(clients) > 1:
        for i in range(len(clients)):
            t = dict(trace)
            t["init"] = dict(init, clients=clients[:i] + clients[i + 1:])
            yield t
    for ci, c in enumerate(clients):
        piece = c["piece"]
        bars = piece["bars"]

        def with_piece(np, ncuts=None):
            nc = dict(c, piece=np)
            if ncuts is not None:
                nc["cuts"] = ncuts
            t = dict(trace)
            t["init"] = dict(init, clients=clients[:ci] + [nc] + clients[ci + 1:])
            return t
        # drop a bar (cuts after it shift down)
        if len(bars) > 1:
            for k in range(len(bars)):
                ncuts = sorted({(x if x <= k else x - 1) for x in c["cuts"]})
                yield with_piece(dict(piece, bars=bars[:k] + bars[k + 1:]), ncuts)
        # drop a cut
        for k in range(len(c["cuts"])):
            yield with_piece(piece, c["cuts"][:k] + c["cuts"][k + 1:])
        # drop a note
        for k, b in enumerate(bars):
            for tr in range(len(b["tracks"])):
                for j in range(len(b["tracks"][tr])):
                    nb = dict(b, tracks=b["tracks"][:tr] + [b["tracks"][tr][:j] + b["tracks"][tr][j + 1:]] + b["tracks"][tr + 1:])
                    yield with_piece(dict(piece, bars=bars[:k] + [nb] + bars[k + 1:]))
        # no ignored messages
        for k, b in enumerate(bars):
            if b.get("extras"):
                yield with_piece(dict(piece, bars=bars[:k] + [{x: y for x, y in b.items() if x != "extras"}] + bars[k + 1:]))
        # simpler signature
        for k, b in enumerate(bars):
            if b["sig"] != [4, 4]:
                fits = all(on + dur <= bar_len(4, 4) for tr in b["tracks"] for (_, on, dur, _) in tr)
                if fits:
                    yield with_piece(dict(piece, bars=bars[:k] + [dict(b, sig=[4, 4])] + bars[k + 1:]))
    # fewer tracks (all clients at once)
    nt = init["cfg"]["ntracks"]
    if nt > 1:
        for tr in range(nt):
            ncl = []
            for c in clients:
                p = c["piece"]
                nbars = [dict(b, tracks=b["tracks"][:tr] + b["tracks"][tr + 1:],
                              extras=[[e[0] - (e[0] > tr)] + e[1:] for e in b.get("extras", []) if e[0] != tr])
                         for b in p["bars"]]
                ncl.append(dict(c, piece=dict(p, ntracks=nt - 1, bars=nbars,
                                              pad_tracks=p["pad_tracks"][:tr] + p["pad_tracks"][tr + 1:])))
            t = dict(trace)
            t["init"] = dict(init, cfg=dict(init["cfg"], ntracks=nt - 1), clients=ncl)
            yield t
    # faults -> none
    evs = trace["events"]
    for j, ev in enumerate(evs):
        if ev.get("fault", "none") != "none":
            t = dict(trace)
            t["events"] = evs[:j] + [dict(ev, fault="none")] + evs[j + 1:]
            yield t


class C03Engine:
    ESSENTIAL = ["reach_judged/streams_by_interpreter"]
    name = "tokstream/C03"
    RULE = ("one run = one seeded schedule: 1-3 (thorough: up to 4) stream clients, each with a generated piece (1-6 bars, thorough "
            "up to 10; 1-4 tracks; per-bar signatures from a small per-piece palette so that signatures recur; literally repeated bars; "
            "per-piece note-value and velocity palettes; empty bars; unequal track lengths; sometimes a second stream playing the same "
            "material), a partition of its bars into consecutive call groups, one of three chunk-production routes (R1 harness bars, "
            "R2 sequences_split_bars, R3 Sequence.split) and a state dictionary, taking turns on one shared tokeniser; between calls the "
            "injector may restart a client (new tokeniser of equal configuration; deep / shallow copy or JSON round trip of the state "
            "dict). Flags, track count, pitch range, note-value subset, step sizes, signature range, velocity bins and bar-token "
            "insertion are drawn per run. distinct_nontrivial counts distinct abstract schedules (crc of the sequence of (client, fault, "
            "chunk index, route)) among runs with a multi-chunk stream AND >=1 fired restart / copy fault or interleaving of another "
            "client on the same tokeniser.")
    REAL = ["MultiTrackLargeVocabularyNotelikeTokeniser.tokenise / detokenise", "Sequence.merge / split / concatenate / sequences_split_bars",
            "Bar", "everything they call"]
    STUB = ["nothing is stubbed; the simulator plays the stream clients and the restart injector"]
    ASSUMPTIONS = [
        "pieces meet the tokeniser's input constraints (even-tick onsets, durations among the configured note values, notes inside "
        "their bar, signatures expressible in eighths on bar boundaries); if the single-call reference itself raises the run is a "
        "foreign failure (C01's business)",
        "the comparison is relative: chunked stream vs single-call stream, both detokenised by a fresh tokeniser; nothing is compared "
        "with the original notes; encode/decode are not called",
        "signature is compared as the step function in force (default 4/4, or 8/8 without simplification), not as messages",
    ]

    @staticmethod
    def run_one(seed, tier, index):
        return tok_run_one(seed, tier, index)

    @staticmethod
    def replay(trace, keep_log=False):
        return tok_replay(trace, keep_log)

    @staticmethod
    def simplify(trace):
        return _simplify(trace)

    @staticmethod
    def sample_kind(r):
        lane = r.trace.get("lane")
        if lane == "baseline":
            return "baseline"
        if r.nontrivial:
            return "fault-multi-client" if len(r.trace["init"]["clients"]) > 1 else "fault"
        return None

    @staticmethod
    def zero_cells(stats):
        want = ["reach_route/R1", "reach_route/R2", "reach_route/R3", "reach_route/R4", "reach_sig/change_exactly_at_chunk_start",
                "reach_sig/change_strictly_inside_chunk", "reach_empty/empty_bar_at_chunk_edge",
                "reach_restart/streams_with_restart", "fault/new_tok", "fault/deepcopy", "fault/dictcopy", "fault/json",
                "fault/other_client_used_same_tokeniser_between_calls"]
        return [w for w in want if stats.get(w, 0) == 0]


ENGINE = C03Engine
