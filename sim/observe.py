"""Non-perturbing observers and canonical forms.

Nothing here calls Sequence.copy / equals / get_message_pairings (they are under test) and
nothing here calls an accessor on a subject: observers read the stored fields directly and,
when they need "what the accessor would return", they work on a throw-away clone.
"""
from __future__ import annotations

from scoda.elements.message import Message
from scoda.enumerations.message_type import MessageType
from scoda.sequences.absolute_sequence import AbsoluteSequence
from scoda.sequences.relative_sequence import RelativeSequence
from scoda.sequences.sequence import Sequence

MT = MessageType
_INTERNAL = MessageType.INTERNAL
_WAIT = MessageType.WAIT
_ON = MessageType.NOTE_ON
_OFF = MessageType.NOTE_OFF
_TS = MessageType.TIME_SIGNATURE
_KS = MessageType.KEY_SIGNATURE


# ---------------------------------------------------------------- copying (harness-side)

def copy_msg(m):
    """Exact field copy that does not go through Message.__init__ / Message.copy."""
    c = object.__new__(type(m))
    c.__dict__.update(m.__dict__)
    return c


def raw_abs(seq):
    if seq._abs_stale:
        return None
    a = getattr(seq, "_abs", None)
    return a._messages if a is not None else None


def raw_rel(seq):
    if seq._rel_stale:
        return None
    r = getattr(seq, "_rel", None)
    return r._messages if r is not None else None


def freshness(seq) -> str:
    a, r = not seq._abs_stale, not seq._rel_stale
    if a and r:
        return "both"
    if a:
        return "abs"
    if r:
        return "rel"
    return "none"


def make_sequence(abs_msgs, rel_msgs):
    """Build a Sequence holding exactly the given view(s) through the public constructor (abs-only, rel-only or both), so
    that attributes a future Sequence.__init__ may add are present on harness-built objects too."""
    if abs_msgs is None and rel_msgs is None:
        s = Sequence()
        s.invalidate_abs()   # both stale: only used to report unreadability
        return s
    return Sequence(absolute_sequence=AbsoluteSequence(list(abs_msgs)) if abs_msgs is not None else None,
                    relative_sequence=RelativeSequence(list(rel_msgs)) if rel_msgs is not None else None)


def clone_seq(seq):
    """Throw-away clone carrying only the views that are marked fresh (deep copies)."""
    a = raw_abs(seq)
    r = raw_rel(seq)
    return make_sequence([copy_msg(m) for m in a] if a is not None else None,
                         [copy_msg(m) for m in r] if r is not None else None)


# ---------------------------------------------------------------- canonical forms

def _nk(v):
    if v is None:
        return (0, 0)
    if isinstance(v, (int, float)):
        return (1, v)
    return (2, str(v))


def _ek(e):
    return tuple(_nk(x) for x in e)


def _mt(m, tick):
    k = m.key
    return (tick, m.message_type.value, m.channel, m.note, m.velocity, m.numerator, m.denominator,
            k.value if k is not None else None, m.control, m.program)


def abs_events(msgs):
    return sorted((_mt(m, m.time) for m in msgs if m.message_type is not _INTERNAL), key=_ek)


def abs_duration(msgs):
    d = 0
    for m in msgs:
        if m.time is not None and m.time > d:
            d = m.time
    return d


def rel_events(msgs):
    t = 0
    out = []
    for m in msgs:
        if m.message_type is _WAIT:
            t += m.time
        elif m.message_type is not _INTERNAL:
            out.append(_mt(m, t))
    out.sort(key=_ek)
    return out


def rel_duration(msgs):
    return sum(m.time for m in msgs if m.message_type is _WAIT)


def raw_snapshot(msgs):
    """Bit-for-bit ordered snapshot of a stored message list (types included)."""
    return [(m.message_type.value, m.channel, m.time, type(m.time).__name__, m.note, m.velocity, m.control,
             m.program, m.numerator, m.denominator, m.key.value if m.key is not None else None) for m in msgs]


def stored_snapshot(seq):
    a, r = raw_abs(seq), raw_rel(seq)
    return (seq._abs_stale, seq._rel_stale,
            raw_snapshot(a) if a is not None else None,
            raw_snapshot(r) if r is not None else None)


class Unreadable(Exception):
    def __init__(self, where, exc):
        super().__init__(f"{where}: {type(exc).__name__}: {exc}")
        self.where = where
        self.exc = exc


def canon_views(seq):
    """(abs_events, abs_duration, rel_events, rel_duration) as the accessors would return them,
    computed on a throw-away clone. Raises Unreadable if an accessor raises."""
    c = clone_seq(seq)
    try:
        a = c.abs._messages
    except Exception as e:
        raise Unreadable("abs", e)
    try:
        r = c.rel._messages
    except Exception as e:
        raise Unreadable("rel", e)
    return abs_events(a), abs_duration(a), rel_events(r), rel_duration(r)


def canon_value(seq):
    """Order-insensitive value of a sequence through the authoritative view(s): (events, duration).
    If both views are fresh the absolute one is used (agreement is checked separately)."""
    a = raw_abs(seq)
    if a is not None:
        return abs_events(a), abs_duration(a)
    r = raw_rel(seq)
    if r is not None:
        return rel_events(r), rel_duration(r)
    raise Unreadable("both", Exception("both views stale"))


def first_diff(x, y):
    if x == y:
        return ""
    if isinstance(x, (list, tuple)) and isinstance(y, (list, tuple)):
        for i, (p, q) in enumerate(zip(x, y)):
            if p != q:
                return f"[{i}] {p!r} != {q!r}"
        return f"len {len(x)} != {len(y)}"
    return f"{x!r} != {y!r}"


def is_integer_value(t):
    """'of integer type': Python int or another numbers.Integral (e.g. a NumPy integer renders and compares like an int);
    bool is not a tick, float / Fraction / Decimal are not integers even when their value is whole."""
    import numbers
    return isinstance(t, numbers.Integral) and not isinstance(t, bool)


def non_int_times(msgs, view):
    bad = []
    for i, m in enumerate(msgs):
        t = m.time
        if t is None:
            continue
        if type(t) is not int and not is_integer_value(t):
            bad.append(f"{view}[{i}] {m.message_type.value} time={t!r} ({type(t).__name__})")
    return bad


# ---------------------------------------------------------------- musical observations

def piano_roll(abs_msgs):
    """FIFO pairing per (channel, pitch) -> sorted list of (channel, pitch, onset, duration, velocity);
    second value: list of unpaired leftovers (should be empty on well-formed content)."""
    open_ = {}
    notes = []
    odd = []
    for m in sorted(abs_msgs, key=lambda m: (m.time, 0 if m.message_type is _OFF else 1)):
        if m.message_type is _ON:
            open_.setdefault((m.channel, m.note), []).append(m)
        elif m.message_type is _OFF:
            q = open_.get((m.channel, m.note))
            if q:
                on = q.pop(0)
                notes.append((on.channel, on.note, on.time, m.time - on.time, on.velocity))
            else:
                odd.append(("off", m.channel, m.note, m.time))
    for k, q in open_.items():
        for on in q:
            odd.append(("on", on.channel, on.note, on.time))
    notes.sort()
    odd.sort()
    return notes, odd


def function_in_force(points, default):
    """points: list of (tick, value) in list order (same-tick: later wins). Returns collapsed step function
    as list of (tick, value) starting at tick 0 with `default` unless overridden at 0."""
    pts = sorted(enumerate(points), key=lambda p: (p[1][0], p[0]))
    out = [(0, default)]
    for _, (tick, val) in pts:
        if tick == out[-1][0]:
            out[-1] = (tick, val)
            if len(out) >= 2 and out[-2][1] == val:
                out.pop()
        elif val != out[-1][1]:
            out.append((tick, val))
    return out


def _reduce(n, d):
    from fractions import Fraction
    return Fraction(n, d)


def timesig_in_force(abs_msgs, default=(4, 4), exact=True):
    pts = []
    for m in abs_msgs:
        if m.message_type is _TS:
            pts.append((m.time, (m.numerator, m.denominator) if exact else _reduce(m.numerator, m.denominator)))
    d = default if exact else _reduce(*default)
    return function_in_force(pts, d)


def key_in_force(abs_msgs, default=None):
    pts = []
    for m in abs_msgs:
        if m.message_type is _KS:
            pts.append((m.time, m.key.value if m.key is not None else None))
    return function_in_force(pts, default)


def bar_marks(abs_msgs):
    return sorted(m.time for m in abs_msgs if m.message_type is _INTERNAL)
