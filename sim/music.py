"""Harness-built musical content: specs (JSON-able, shrinkable) and their rendering into
S-Coda messages in the library's canonical same-tick order (DESIGN L6).

spec = {"notes": [[ch, pitch, onset, dur, vel], ...],
        "tsigs": [[tick, num, den], ...], "keys": [[tick, "C"], ...],
        "progs": [[tick, ch, program], ...], "ccs": [[tick, ch, control, value], ...],
        "lone": [[ch, pitch, tick, vel], ...] note-ons that are never closed, "stray": [[ch, pitch, tick], ...] note-offs
        that close nothing (both optional; integer-tick input that is not well-formed, only used where a property
        quantifies over all integer-tick sequences),
        "tail": extra ticks of silence after the last event, "wsplit": 0 | k (split waits > k)}
"""
from __future__ import annotations

from scoda.elements.message import Message
from scoda.enumerations.message_type import MessageType
from scoda.misc.music_theory import Key
from scoda.sequences.absolute_sequence import AbsoluteSequence
from scoda.sequences.relative_sequence import RelativeSequence
from scoda.sequences.sequence import Sequence

MT = MessageType
_ORDER = {mt: i for i, mt in enumerate(MessageType)}
KEYS = [k.value for k in Key]

EMPTY_SPEC = {"notes": [], "tsigs": [], "keys": [], "progs": [], "ccs": [], "tail": 0, "wsplit": 0}


def render_abs(spec) -> list:
    msgs = []
    for ch, p, on, dur, vel in spec.get("notes", []):
        msgs.append(Message(message_type=MT.NOTE_ON, channel=ch, note=p, velocity=vel, time=on))
        msgs.append(Message(message_type=MT.NOTE_OFF, channel=ch, note=p, time=on + dur))
    for ch, p, on, vel in spec.get("lone", []):
        msgs.append(Message(message_type=MT.NOTE_ON, channel=ch, note=p, velocity=vel, time=on))
    for ch, p, on in spec.get("stray", []):
        msgs.append(Message(message_type=MT.NOTE_OFF, channel=ch, note=p, time=on))
    for tick, n, d in spec.get("tsigs", []):
        msgs.append(Message(message_type=MT.TIME_SIGNATURE, numerator=n, denominator=d, time=tick))
    for tick, k in spec.get("keys", []):
        msgs.append(Message(message_type=MT.KEY_SIGNATURE, key=Key(k), time=tick))
    for tick, ch, prog in spec.get("progs", []):
        msgs.append(Message(message_type=MT.PROGRAM_CHANGE, channel=ch, program=prog, time=tick))
    for tick, ch, c, v in spec.get("ccs", []):
        msgs.append(Message(message_type=MT.CONTROL_CHANGE, channel=ch, control=c, velocity=v, time=tick))
    # library order: (time, channel, message type, note); stable
    msgs.sort(key=lambda x: (x.time, x.channel, _ORDER[x.message_type], -1 if x.note is None else x.note))
    tail = spec.get("tail", 0)
    if tail:
        end = msgs[-1].time if msgs else 0
        ch = msgs[0].channel if msgs else 0
        msgs.append(Message(message_type=MT.INTERNAL, channel=ch, time=end + tail))
    return msgs


def render_rel(spec) -> list:
    out = []
    cur = 0
    wsplit = spec.get("wsplit", 0)
    for m in render_abs(spec):
        if m.time > cur:
            gap = m.time - cur
            if wsplit and gap > wsplit:
                out.append(Message(message_type=MT.WAIT, channel=m.channel, time=wsplit))
                out.append(Message(message_type=MT.WAIT, channel=m.channel, time=gap - wsplit))
            else:
                out.append(Message(message_type=MT.WAIT, channel=m.channel, time=gap))
            cur = m.time
        if m.message_type is not MT.INTERNAL:
            m.time = None
            out.append(m)
    return out


def scramble_ticks(msgs, perm):
    """Reorder a rendered absolute list by whole ticks (seeded), keeping the canonical order inside one tick (DESIGN L6):
    the order in which a caller may hand messages to add_absolute_message / overwrite_absolute_messages."""
    groups = {}
    for m in msgs:
        groups.setdefault(m.time, []).append(m)
    ticks = sorted(groups)
    x = perm
    for i in range(len(ticks) - 1, 0, -1):
        x = (x * 1103515245 + 12345) & 0x7FFFFFFF
        j = x % (i + 1)
        ticks[i], ticks[j] = ticks[j], ticks[i]
    return [m for t in ticks for m in groups[t]]


def metas_last(msgs, perm):
    """Within some ticks (chosen by `perm`) hand the non-note messages over AFTER the note messages of that tick - "notes first,
    then the signatures", as a caller filling a sequence voice by voice does. The order of the note messages among themselves
    (note-off before note-on) is kept; the value of the sequence is the same."""
    out, i = [], 0
    while i < len(msgs):
        j = i
        while j < len(msgs) and msgs[j].time == msgs[i].time:
            j += 1
        group = msgs[i:j]
        if ((perm * 2654435761 + (msgs[i].time or 0) * 40503) >> 7) & 1:
            notes = [m for m in group if m.message_type in (MT.NOTE_ON, MT.NOTE_OFF)]
            group = notes + [m for m in group if m.message_type not in (MT.NOTE_ON, MT.NOTE_OFF)]
        out.extend(group)
        i = j
    return out


def build_sequence(spec, mode) -> Sequence:
    """mode: 'abs' (only absolute fresh), 'rel' (only relative fresh), 'both', 'empty' (Sequence()),
    'insert:<n>' (built message by message through add_absolute_message, ticks in a seeded scrambled order),
    'insert2:<n>' (the same, and in some ticks the non-note messages are added after the notes of that tick)."""
    if mode == "empty":
        return Sequence()
    if mode.startswith("insert"):
        s = Sequence()
        perm = int(mode.split(":")[1]) if ":" in mode else 1
        msgs = scramble_ticks(render_abs(spec), perm)
        if mode.startswith("insert2"):
            msgs = metas_last(msgs, perm)
        for m in msgs:
            s.add_absolute_message(m)
        return s
    if mode == "abs":
        return Sequence(absolute_sequence=AbsoluteSequence(render_abs(spec)))
    if mode == "rel":
        return Sequence(relative_sequence=RelativeSequence(render_rel(spec)))
    if mode == "both":
        return Sequence(absolute_sequence=AbsoluteSequence(render_abs(spec)),
                        relative_sequence=RelativeSequence(render_rel(spec)))
    raise ValueError(mode)


def spec_duration(spec) -> int:
    end = 0
    for ch, p, on, dur, vel in spec.get("notes", []):
        end = max(end, on + dur)
    for lst in ("tsigs", "keys", "progs", "ccs"):
        for item in spec.get(lst, []):
            end = max(end, item[0])
    for lst in ("lone", "stray"):
        for item in spec.get(lst, []):
            end = max(end, item[2])
    return end + spec.get("tail", 0)


def msg_to_dict(m) -> dict:
    d = {"t": m.message_type.value, "ch": m.channel}
    for f in ("time", "note", "velocity", "control", "program", "numerator", "denominator"):
        v = getattr(m, f)
        if v is not None:
            d[f] = v
    if m.key is not None:
        d["key"] = m.key.value
    return d


def msg_from_dict(d) -> Message:
    return Message(message_type=MessageType(d["t"]), channel=d.get("ch"), time=d.get("time"), note=d.get("note"),
                   velocity=d.get("velocity"), control=d.get("control"), program=d.get("program"),
                   numerator=d.get("numerator"), denominator=d.get("denominator"),
                   key=Key(d["key"]) if d.get("key") is not None else None)


# ---------------------------------------------------------------- generation

NOTE_VALUES = [4, 6, 8, 9, 12, 16, 18, 24, 36]


def gen_music(rng, max_notes=8, channels=(0,), grid=None, horizon=400, pitches=None, sigs=True,
              allow_empty=True, extras=True) -> dict:
    """Well-formed content: per (channel, pitch) notes never overlap (abutting allowed), integer ticks,
    velocities 1..127."""
    if grid is None:
        grid = rng.choice([1, 1, 2, 3, 4, 6, 6, 6, 12])
    if pitches is None:
        base = rng.randrange(24, 100)
        pitches = sorted({base + rng.randrange(0, 9) for _ in range(rng.randrange(1, 5))})
    n = rng.randrange(0 if allow_empty else 1, max_notes + 1)
    last_end = {}
    notes = []
    # "strummed chord" shape: several pitches starting within a few ticks of each other with almost equal, almost valid
    # lengths, so that note ends lie 1-3 ticks apart - the shape in which numeric coincidences between notes (ends that
    # swap, collide or tie under a correction) are common
    if n >= 2 and rng.random() < 0.28:
        t0 = rng.randrange(0, max(1, horizon // 2))
        base_len = rng.choice(NOTE_VALUES)
        chord = sorted({(pitches[0] - 12 + rng.randrange(0, 30)) for _ in range(n)})
        ch = rng.choice(channels)
        for p_ in chord:
            if not 21 <= p_ <= 108:
                continue
            tight = rng.random() < 0.5
            notes.append([ch, p_, t0 + rng.randrange(0, 3 if tight else 5),
                          max(1, base_len + (rng.randrange(-2, 3) if tight else rng.randrange(-3, 4))), rng.randrange(1, 128)])
        n = 0
    for _ in range(n):
        ch = rng.choice(channels)
        p = rng.choice(pitches)
        r_d = rng.random()
        if r_d < 0.4:
            dur = rng.choice(NOTE_VALUES)
        elif r_d < 0.7:
            # "humanised" lengths: almost a note value (where quantisation corrects in both directions)
            dur = max(1, rng.choice(NOTE_VALUES) + rng.choice([-3, -2, -1, 1, 2, 3]))
        else:
            dur = grid * rng.randrange(1, 8)
        start_min = last_end.get((ch, p), 0)
        r = rng.random()
        if r < 0.35 and (ch, p) in last_end:
            on = start_min  # abutting repeat
        else:
            lo = -(-start_min // grid)
            hi = max(lo, horizon // grid)
            on = grid * rng.randrange(lo, hi + 1) if hi >= lo else start_min
        if on + dur > horizon * 2:
            continue
        notes.append([ch, p, on, dur, rng.randrange(1, 128)])
        last_end[(ch, p)] = on + dur
    notes.sort(key=lambda x: (x[2], x[0], x[1]))
    spec = {"notes": notes, "tsigs": [], "keys": [], "progs": [], "ccs": [], "tail": 0, "wsplit": 0}
    if sigs and rng.random() < 0.45:
        ticks = sorted({rng.choice([0, 0, 0, 48, 96, 144, 192, grid * rng.randrange(0, 40)])
                        for _ in range(rng.randrange(1, 3))})
        prev = None
        for t in ticks:
            nd = rng.choice([(4, 4), (3, 4), (2, 4), (6, 8), (2, 2), (5, 4), (3, 8), (8, 8), (12, 8)])
            if nd != prev:
                spec["tsigs"].append([t, nd[0], nd[1]])
                prev = nd
    if sigs and rng.random() < 0.3:
        ticks = sorted({rng.choice([0, 0, 96, 192, grid * rng.randrange(0, 40)]) for _ in range(rng.randrange(1, 3))})
        prev = None
        for t in ticks:
            k = rng.choice(KEYS)
            if k != prev:
                spec["keys"].append([t, k])
                prev = k
    if extras and rng.random() < 0.12:
        spec["progs"].append([rng.choice([0, 0, grid * rng.randrange(0, 20)]), rng.choice(channels), rng.randrange(0, 128)])
    if extras and rng.random() < 0.08:
        spec["ccs"].append([grid * rng.randrange(0, 20), rng.choice(channels), rng.randrange(0, 120), rng.randrange(0, 128)])
    if rng.random() < 0.35:
        spec["tail"] = rng.choice([1, 6, 12, 24, 48, grid * rng.randrange(1, 10)])
    if rng.random() < 0.2:
        spec["wsplit"] = rng.choice([1, 3, 6, 12])
    return spec


def simplify_spec(spec):
    """Yield simpler variants of a spec (for the shrinker)."""
    notes = spec.get("notes", [])
    for i in range(len(notes)):
        s = dict(spec)
        s["notes"] = notes[:i] + notes[i + 1:]
        yield s
    for fld in ("tsigs", "keys", "progs", "ccs", "lone", "stray"):
        items = spec.get(fld, [])
        for i in range(len(items)):
            s = dict(spec)
            s[fld] = items[:i] + items[i + 1:]
            yield s
    if spec.get("tail"):
        s = dict(spec)
        s["tail"] = 0
        yield s
    if spec.get("wsplit"):
        s = dict(spec)
        s["wsplit"] = 0
        yield s
