"""simdisk: S-Coda's MIDI save / load paths on a simulated disk (C12, C13).

Seam: while an operation runs, `builtins.open` / `io.open` are shadowed (mido's and S-Coda's `open(...)` calls are global
lookups that fall through to the builtin). For binary opens of a path inside the run's private scratch directory the
shadow returns a *real* io.BufferedWriter / io.BufferedReader of a seeded buffer size over `SimRaw`, an io.RawIOBase that
injects the faults and passes everything else on to a real io.FileIO. The directory is a real, per-run scratch directory
(removed when the run ends), so that a repository that starts to use `os.replace`, `os.path.exists`, `tempfile`, `fsync` or
`pathlib` around its saves keeps working under simulation. Real: S-Coda, mido's SMF codec, CPython's buffered layer, the
directory. Simulated: the raw device's behaviour (short counts, EINTR, ENOSPC, EIO). Nothing under /repo or /verif is touched.

Faults (all placed by the run's seed, counted only when they actually fired):
  maskable      short write() / short readinto() counts, odd buffer sizes, one EINTR   -> must be invisible
  non-maskable  ENOSPC or EIO on the k-th written byte, EIO on the k-th read byte    -> the call must raise; it may never
                (persistent: every open() of the operation meets it, like a full       return normally with different music
                 disk; or transient: only the first open() does)
"""
from __future__ import annotations

import builtins
import errno
import io
import json
import os
import random
import shutil
import struct
import tempfile
import zlib
from fractions import Fraction

import mido
import mido.midifiles.midifiles as mido_mf

from scoda.sequences.sequence import Sequence

from sim import core, music, observe
from sim.core import RunResult, Violation, EventLog
from sim.observe import piano_roll, timesig_in_force, key_in_force, function_in_force, first_diff

PPQN = 24
_REAL_OPEN = builtins.open
_REAL_IO_OPEN = io.open
_REAL_REPLACE = os.replace
_REAL_RENAME = os.rename
_REAL_FSYNC = os.fsync
_REAL_FILEIO = io.FileIO
_SCRATCH_PARENT = "/dev/shm" if os.path.isdir("/dev/shm") and os.access("/dev/shm", os.W_OK) else tempfile.gettempdir()


_LIVE_ROOTS = set()


def _release_frames(exc):
    """Drop the frame locals a caught exception keeps alive, innermost frame first. An I/O error raised inside a raw
    write() keeps the memoryview it was handed alive through its traceback; if an outer frame's io.BytesIO that exports that
    buffer is freed first, CPython 3.12 reports 'deallocated BytesIO object has exported buffers' and later crashes in the
    garbage collector. Releasing inner frames first keeps the worker process alive, whatever the code under test does."""
    frames = []
    tb = exc.__traceback__
    while tb is not None:
        frames.append(tb.tb_frame)
        tb = tb.tb_next
    for fr in reversed(frames):
        try:
            fr.clear()
        except RuntimeError:
            pass
    exc.__traceback__ = None


def _sweep():
    """Remove scratch directories a run left behind (exception paths) and restore the real open()."""
    builtins.open = _REAL_OPEN
    io.open = _REAL_IO_OPEN
    for r in list(_LIVE_ROOTS):
        shutil.rmtree(r, ignore_errors=True)
        _LIVE_ROOTS.discard(r)


# ------------------------------------------------------------------ the simulated device

class Plan:
    """Fault plan of one open file. All decisions derive from integers stored in the trace."""

    def __init__(self, d):
        d = d or {}
        self.kind = d.get("kind", "none")      # none | short | enospc | eio
        self.at = d.get("at", 0)               # byte offset of the non-maskable fault
        self.pattern = d.get("pattern", 1)     # seed of the short-count pattern
        self.buf = d.get("buf", 8192)
        self.also_short = d.get("also_short", False)
        self.persist = d.get("persist", False)  # the condition (disk full, bad sector) outlives one open()
        self.once = d.get("once", False)        # transient device error: fails once at that byte, a second attempt succeeds


class SimRaw(io.RawIOBase):
    def __init__(self, disk, path, mode, plan):
        super().__init__()
        self.disk = disk
        self._path = path
        self._mode = mode
        self.plan = plan
        self.f = _REAL_FILEIO(path, mode.replace("b", ""))
        self._eintr_done = False
        self._hard_done = False
        self.direct = False   # handed out unbuffered (buffering=0): a real FileIO retries EINTR itself (PEP 475)
        self._lcg = (plan.pattern * 2654435761 + 12345) & 0xFFFFFFFF

    @property
    def name(self):
        return self._path

    @property
    def mode(self):
        return self._mode

    def _next_short(self, n):
        self._lcg = (self._lcg * 1103515245 + 12345) & 0x7FFFFFFF
        r = self._lcg >> 8
        if r % 3 == 0:
            return n
        return 1 + r % n

    def readable(self):
        return self.f.readable()

    def writable(self):
        return self.f.writable()

    def seekable(self):
        return True

    def fileno(self):
        return self.f.fileno()

    def tell(self):
        return self.f.tell()

    def seek(self, off, whence=0):
        return self.f.seek(off, whence)

    def truncate(self, size=None):
        return self.f.truncate(size)

    def close(self):
        if not self.closed:
            try:
                self.f.close()
            finally:
                super().close()

    def readinto(self, b):
        n = len(b)
        if n <= 0:
            return 0
        pos = self.f.tell()
        p = self.plan
        if p.kind == "eintr" and not self._eintr_done and pos >= p.at:
            self._eintr_done = True
            self.disk.fired("read_eintr")
            if not self.direct:
                raise InterruptedError(errno.EINTR, "simulated EINTR on read")
        if p.kind == "eio" and not (p.once and self._hard_done):
            if pos >= p.at:
                # only a fault if there is still data to read there
                if self.disk.size_of(self._path) > pos:
                    self._hard_done = True
                    self.disk.fired("read_eio")
                    if p.once:
                        self.disk.fired("read_eio_transient")
                    raise OSError(errno.EIO, "simulated I/O error on read")
            else:
                n = min(n, p.at - pos)
        if (p.kind == "short" or p.also_short) and n > 1:
            m = self._next_short(n)
            if m < n:
                avail = self.disk.size_of(self._path) - pos
                if avail > m:
                    self.disk.fired("short_read")
                n = m
        return self.f.readinto(memoryview(b)[:n])

    def write(self, b):
        n = len(b)
        if n == 0:
            return 0
        pos = self.f.tell()
        p = self.plan
        if p.kind == "eintr" and not self._eintr_done and pos >= p.at:
            self._eintr_done = True
            self.disk.fired("write_eintr")
            if not self.direct:
                raise InterruptedError(errno.EINTR, "simulated EINTR on write")
        if p.kind in ("enospc", "eio") and not (p.once and self._hard_done):
            if pos >= p.at:
                self._hard_done = True
                self.disk.fired("write_" + p.kind)
                if p.once:
                    self.disk.fired("write_" + p.kind + "_transient")
                raise OSError(errno.ENOSPC if p.kind == "enospc" else errno.EIO, "simulated " + p.kind + " on write")
            n = min(n, p.at - pos)
        if (p.kind == "short" or p.also_short) and n > 1:
            m = self._next_short(n)
            if m < n:
                self.disk.fired("short_write")
                n = m
        return self.f.write(memoryview(b)[:n])


class SimDisk:
    """A per-run scratch directory plus the `open` shadow that puts SimRaw under every binary open inside it."""

    def __init__(self, stats):
        self.root = tempfile.mkdtemp(prefix="scoda_sim_", dir=_SCRATCH_PARENT)
        _LIVE_ROOTS.add(self.root)
        self.stats = stats
        self.next_plan = None
        self.fired_now = set()
        self.opened = 0
        self.opened_in_op = 0
        self._depth = 0

    def path(self, name):
        return os.path.join(self.root, name + ".mid")

    def names(self):
        return sorted(f[:-4] for f in os.listdir(self.root) if f.endswith(".mid"))

    def exists(self, name):
        return os.path.isfile(self.path(name))

    def size_of(self, path):
        try:
            return os.stat(path).st_size
        except OSError:
            return 0

    def read_bytes(self, name):
        try:
            with _REAL_OPEN(self.path(name), "rb") as f:
                return f.read()
        except OSError:
            return b""

    def write_bytes(self, name, data):
        with _REAL_OPEN(self.path(name), "wb") as f:
            f.write(data)

    def cleanup(self):
        shutil.rmtree(self.root, ignore_errors=True)
        _LIVE_ROOTS.discard(self.root)

    def fired(self, kind):
        self.stats["fault/" + kind] += 1
        self.fired_now.add(kind)

    def open(self, file, mode="r", buffering=-1, *a, **kw):
        try:
            path = os.fspath(file)
        except TypeError:
            return _REAL_OPEN(file, mode, buffering, *a, **kw)
        if isinstance(path, bytes):
            path = os.fsdecode(path)
        inside = isinstance(path, str) and os.path.abspath(path).startswith(self.root + os.sep)
        if not inside or "b" not in mode:
            return _REAL_OPEN(file, mode, buffering, *a, **kw)
        plan = Plan(self.next_plan)
        if not plan.persist:
            self.next_plan = None   # transient: only the first open of the operation sees it
        if plan.kind == "open_error":
            # the device refuses the open itself (permissions, quota, bad medium)
            self.fired("open_error")
            raise OSError(errno.EACCES if "w" in mode or "a" in mode or "+" in mode else errno.EIO,
                          "simulated failure of open()", path)
        self.opened += 1
        if self.opened_in_op > 0:
            self.stats["reach_io/reopen_within_one_operation"] += 1
        self.opened_in_op += 1
        raw = SimRaw(self, path, mode, plan)
        size = max(1, plan.buf)
        if buffering == 0:
            raw.direct = True
            return raw
        if "+" in mode:
            return io.BufferedRandom(raw, buffer_size=size)
        if raw.writable():
            return io.BufferedWriter(raw, buffer_size=size)
        return io.BufferedReader(raw, buffer_size=size)

    def _inside(self, p):
        try:
            p = os.fspath(p)
        except TypeError:
            return False
        if isinstance(p, bytes):
            p = os.fsdecode(p)
        return isinstance(p, str) and os.path.abspath(p).startswith(self.root + os.sep)

    def _rename(self, real, src, dst, *a, **kw):
        # the step an atomic save (write a temporary file, then rename it over the target) can fail at; the pinned tree has
        # no such call, so this seam only counts when a change introduces one
        if self._inside(src) or self._inside(dst):
            self.stats["reach_io/rename_within_operation"] += 1
            if Plan(self.next_plan).kind == "rename_error":
                self.fired("rename_error")
                raise OSError(errno.EIO, "simulated failure of rename()", os.fspath(dst))
        return real(src, dst, *a, **kw)

    def _fsync(self, fd):
        self.stats["reach_io/fsync_within_operation"] += 1
        if Plan(self.next_plan).kind == "fsync_error":
            self.fired("fsync_error")
            raise OSError(errno.EIO, "simulated failure of fsync()")
        return _REAL_FSYNC(fd)

    def __enter__(self):
        self._depth += 1
        if self._depth == 1:
            self.opened_in_op = 0
            builtins.open = self.open
            io.open = self.open
            os.replace = lambda src, dst, *a, **kw: self._rename(_REAL_REPLACE, src, dst, *a, **kw)
            os.rename = lambda src, dst, *a, **kw: self._rename(_REAL_RENAME, src, dst, *a, **kw)
            os.fsync = self._fsync
        return self

    def __exit__(self, *exc):
        self._depth -= 1
        if self._depth == 0:
            builtins.open = _REAL_OPEN
            io.open = _REAL_IO_OPEN
            os.replace = _REAL_REPLACE
            os.rename = _REAL_RENAME
            os.fsync = _REAL_FSYNC
            self.next_plan = None
        return False


# ------------------------------------------------------------------ expectations (harness-side, independent of S-Coda)

def expected_music(seq_specs):
    """What C12 promises to get back: per sequence the piano roll (pitch, onset, duration, velocity); on the meta
    sequence the time / key signature in force (4/4 from tick 0 by default)."""
    rolls = []
    ts_pts, ks_pts = [], []
    for s in seq_specs:
        spec = s["spec"]
        rolls.append(sorted((p, on, dur, vel) for (ch, p, on, dur, vel) in spec["notes"]))
        for tick, n, d in spec["tsigs"]:
            ts_pts.append((tick, (n, d)))
        for tick, k in spec["keys"]:
            ks_pts.append((tick, k))
    return {"rolls": rolls, "ts": function_in_force(sorted(ts_pts, key=lambda x: x[0]), (4, 4)),
            "ks": function_in_force(sorted(ks_pts, key=lambda x: x[0]), None)}


def observed_music(seqs, meta_index=0):
    rolls = []
    odd_all = []
    for s in seqs:
        msgs = s.abs._messages
        notes, odd = piano_roll(msgs)
        rolls.append(sorted((p, on, dur, vel) for (_, p, on, dur, vel) in notes))
        odd_all.append(odd)
    meta = seqs[meta_index].abs._messages if seqs else []
    return {"rolls": rolls, "ts": timesig_in_force(meta, (4, 4)), "ks": key_in_force(meta, None), "odd": odd_all}


def held_music(seqs):
    """The music a list of *held* sequences (objects with a history) carries, read harness-side from throw-away clones of
    their fresh views so that the subjects' freshness state is what the save meets: rolls per sequence, signatures in force =
    union over all sequences. None if the content is not well-formed any more (unpaired events, empty or overlapping notes
    of one pitch, velocity outside 1..127) - then nothing is promised."""
    clones = [observe.clone_seq(q) for q in seqs]
    got = observed_music(clones)
    if any(got["odd"]):
        return None
    for roll in got["rolls"]:
        last = {}
        for p, on, dur, vel in sorted(roll, key=lambda x: (x[0], x[1])):
            if dur < 1 or vel is None or not 1 <= vel <= 127 or on < last.get(p, 0) or not 0 <= p <= 127:
                return None
            last[p] = on + dur
    pts_t, pts_k = [], []
    for c in clones:
        for m in c.abs._messages:
            if m.message_type is observe._TS:
                pts_t.append((m.time, (m.numerator, m.denominator)))
            elif m.message_type is observe._KS:
                pts_k.append((m.time, m.key.value))
    # two different signatures on one tick (from different sequences) have no defined winner
    for pts in (pts_t, pts_k):
        seen = {}
        for t, v in pts:
            if seen.setdefault(t, v) != v:
                return None
    return {"rolls": got["rolls"], "ts": function_in_force(sorted(pts_t, key=lambda x: x[0]), (4, 4)),
            "ks": function_in_force(sorted(pts_k, key=lambda x: x[0]), None),
            "ticks": sum(observe.abs_duration(c.abs._messages) for c in clones)}


def apply_history(seq, hist, stats):
    """Public operations between building a sequence and saving it (each one that raises is skipped): what is saved is then
    an object with stale leftovers, a regenerated view, bar markers in the middle of a fresh absolute view ..."""
    for op in hist:
        try:
            k = op[0]
            if k == "pad":
                seq.pad(seq.get_sequence_duration() + op[1])
            elif k == "add_note":
                end = seq.get_sequence_duration() + op[2]
                seq.add_absolute_message(music.msg_from_dict({"t": "note_on", "ch": op[5], "time": end, "note": op[1], "velocity": op[4]}))
                seq.add_absolute_message(music.msg_from_dict({"t": "note_off", "ch": op[5], "time": end + op[3], "note": op[1]}))
            elif k == "transpose":
                seq.transpose(op[1])
            elif k == "quantise":
                seq.quantise_and_normalise()
            elif k == "normalise":
                seq.normalise()
            elif k == "copy":
                seq = seq.copy()
            elif k == "read_abs":
                seq.abs
            elif k == "read_rel":
                seq.rel
            elif k == "scale":
                seq.scale(2, None, False)
            elif k == "split_rejoin":
                pieces = seq.split([op[1]])
                seq = Sequence()
                seq.concatenate(pieces)
            elif k == "bars":
                from scoda.elements.bar import Bar
                seq = Bar.to_sequence(Sequence.sequences_split_bars([seq], 0, quantise_note_lengths=False)[0])
            elif k == "detok":
                from scoda.tokenisation.notelike_tokenisation import MultiTrackLargeVocabularyNotelikeTokeniser as _T
                tok = _T(num_tracks=1)
                seq = tok.detokenise(tok.tokenise([seq.copy()]))[0]
            stats[f"reach_hist/{k}"] += 1
        except core.RunTimeout:
            raise
        except Exception:
            stats[f"reach_hist/{k}:raised-skipped"] += 1
    return seq


def compare_music(exp, got):
    if len(exp["rolls"]) != len(got["rolls"]):
        return f"number of sequences {len(got['rolls'])} != saved {len(exp['rolls'])}"
    for i, (a, b) in enumerate(zip(exp["rolls"], got["rolls"])):
        if a != b:
            return f"sequence {i} notes (pitch, onset, duration, velocity): saved vs loaded {first_diff(a, b)}"
        if got["odd"][i]:
            return f"sequence {i} has unpaired note events after loading: {got['odd'][i][:3]}"
    if exp["ts"] != got["ts"]:
        return f"time signature in force: saved vs loaded {first_diff(exp['ts'], got['ts'])}"
    if exp["ks"] != got["ks"]:
        return f"key signature in force: saved vs loaded {first_diff(exp['ks'], got['ks'])}"
    return None


# ------------------------------------------------------------------ C12 world

class DiskWorld:
    """A small history of saves and loads against one simulated disk."""

    def __init__(self, init, keep_log=False):
        self.log = EventLog(keep_log)
        self.stats = core.Counter()
        self.disk = SimDisk(self.stats)
        self.pool = init["pool"]            # list of lists of {spec, mode}
        self.acked = {}                     # file name -> expected music | None (unknown: save did not return)
        self.loaded = {}                    # file name -> (sequences the last judged load returned, expected music)
        self.abstract = []
        self.foreign = None
        self.faults_fired = 0
        self.judged = 0

    def apply(self, ev, idx):
        op = ev["op"]
        name = ev.get("name", "a")
        if op == "save":
            return self._save(ev, name, idx)
        if op == "load":
            return self._load(ev, name, idx)
        if op == "torn_probe":
            return self._torn(ev, name, idx)
        if op == "resave":
            return self._resave(ev, name, idx)
        return None

    def _resave(self, ev, name, idx):
        """Second generation: save what the last judged load of `src` returned (sequences that came out of the loader:
        no cap markers, a default 4/4 message, controllers on the meta sequence) under another name; loading that must
        give the same music again."""
        src = ev.get("src", "a")
        got = self.loaded.get(src)
        if got is None:
            self.log.add("resave", name, "skip:nothing-loaded")
            return None
        seqs, music_ = got
        self.disk.next_plan = {"kind": "none", "buf": 8192}
        self.disk.fired_now = set()
        try:
            with self.disk:
                Sequence.sequences_save(seqs, self.disk.path(name))
        except core.RunTimeout:
            raise
        except Exception as e:
            _release_frames(e)
            v = Violation("SAVE-RAISED", f"saving the sequences a load had returned raised {type(e).__name__}: {e}",
                          {"op": "resave", "kind": "raised-without-fault"}, idx)
            self.log.add("resave", name, "viol", v.cls)
            return v
        self.acked[name] = {"music": music_, "hard_fault_during_save": []}
        self.stats["reach_save/resave_of_loaded_sequences"] += 1
        self.log.add("resave", name, "ack")
        return None

    def _save(self, ev, name, idx):
        specs = self.pool[ev.get("which", 0) % len(self.pool)]
        seqs = [music.build_sequence(s["spec"], s["mode"]) for s in specs]
        plan = ev.get("plan") or {}
        comp = None
        expected = None
        held = None
        if any(s.get("hist") for s in specs):
            with_hist = [apply_history(q, s.get("hist") or [], self.stats) for q, s in zip(seqs, specs)]
            try:
                held = held_music(with_hist)
            except core.RunTimeout:
                raise
            except Exception:
                held = None
            if held is not None and held.pop("ticks") <= 40000:
                seqs = with_hist
                self.stats["reach_save/sequences_with_a_history"] += 1
            else:
                held = None
                seqs = [music.build_sequence(s["spec"], s["mode"]) for s in specs]
                self.stats["reach_save/history_left_the_domain"] += 1
        if ev.get("via") == "composition":
            # Composition.save: the music that is saved is what the composition holds (bar splitting pads and may
            # re-quantise boundary-cut notes: C09's business); the expectation is read harness-side from its sequences.
            try:
                from scoda.elements.composition import Composition
                comp = Composition.from_sequences(seqs, 0)
                held = comp.copy().to_sequences()
                expected = observed_music(held)
                if any(expected["odd"]):
                    comp = None
                else:
                    expected = {"rolls": expected["rolls"], "ts": expected["ts"], "ks": expected["ks"]}
                    # signatures of all tracks end up on the meta sequence: in force = union over tracks
                    pts_t, pts_k = [], []
                    for q in held:
                        for m in q.abs._messages:
                            if m.message_type is observe._TS:
                                pts_t.append((m.time, (m.numerator, m.denominator)))
                            elif m.message_type is observe._KS:
                                pts_k.append((m.time, m.key.value))
                    expected["ts"] = function_in_force(sorted(pts_t, key=lambda x: x[0]), (4, 4))
                    expected["ks"] = function_in_force(sorted(pts_k, key=lambda x: x[0]), None)
            except core.RunTimeout:
                raise
            except Exception:
                comp = None
            if comp is not None:
                self.stats["reach_save/via_composition"] += 1
        self.disk.next_plan = plan
        self.disk.fired_now = set()
        exc = None
        try:
            with self.disk:
                target = self.disk.path(name)
                if ev.get("pathlib"):
                    import pathlib
                    target = pathlib.Path(target)
                if comp is not None:
                    comp.save(target)
                elif ev.get("via") == "save" and len(seqs) == 1:
                    seqs[0].save(target)
                else:
                    Sequence.sequences_save(seqs, target)
        except core.RunTimeout:
            raise
        except Exception as e:
            exc = e
            _release_frames(e)
        fired = set(self.disk.fired_now)
        hard = {f for f in fired if f in ("write_enospc", "write_eio", "open_error", "rename_error", "fsync_error")}
        self.abstract.append(zlib.crc32(f"save|{plan.get('kind', 'none')}|{sorted(fired)}|{exc is None}".encode()))
        self.faults_fired += len(fired)
        if plan.get("kind", "none") in ("enospc", "eio", "open_error", "rename_error", "fsync_error") and not hard:
            self.stats[f"fault_not_fired/write_{plan['kind']}"] += 1
        if exc is not None:
            if not hard:
                # legal input, no non-maskable fault: the pinned tree never refuses such a save, so a raise is a violation
                cls = "SPURIOUS-FAILURE" if fired else "SAVE-RAISED"
                v = Violation(cls, f"save of legal sequences raised {type(exc).__name__}: {exc} although no non-maskable fault "
                              f"fired (fired: {sorted(fired)})", {"op": "save", "kind": "raised-without-fault"}, idx)
                self.log.add("save", name, "viol", v.cls)
                return v
            self.acked[name] = None
            self.stats["reach_save/raised_under_fault"] += 1
            self.log.add("save", name, "raised", type(exc).__name__, sorted(fired), len(self.disk.read_bytes(name)))
            return None
        # acknowledged
        self.acked[name] = {"music": expected if comp is not None else (held if held is not None else expected_music(specs)),
                            "hard_fault_during_save": sorted(hard)}
        self.stats["reach_save/acknowledged"] += 1
        if hard:
            self.stats["reach_save/acknowledged_despite_hard_fault"] += 1
        data = self.disk.read_bytes(name)
        self.log.add("save", name, "ack", sorted(fired), len(data), zlib.crc32(data))
        return None

    def _load(self, ev, name, idx):
        if not self.disk.exists(name):
            if self.acked.get(name) is not None:
                v = Violation("ACK-NOT-DURABLE", f"save of {name}.mid returned normally but there is no such file afterwards",
                              {"op": "load", "kind": "missing-file"}, idx)
                self.log.add("load", name, "viol", v.cls)
                return v
            self.log.add("load", name, "skip:nofile")
            return None
        plan = ev.get("plan") or {}
        self.disk.next_plan = plan
        self.disk.fired_now = set()
        exc = None
        seqs = None
        try:
            with self.disk:
                target = self.disk.path(name)
                if ev.get("pathlib"):
                    import pathlib
                    target = pathlib.Path(target)
                seqs = Sequence.sequences_load(file_path=target)
        except core.RunTimeout:
            raise
        except Exception as e:
            exc = e
            _release_frames(e)
        fired = set(self.disk.fired_now)
        hard = "read_eio" in fired or "open_error" in fired
        ack = self.acked.get(name)
        self.abstract.append(zlib.crc32(f"load|{plan.get('kind', 'none')}|{sorted(fired)}|{exc is None}|{ack is not None}".encode()))
        self.faults_fired += len(fired)
        if plan.get("kind", "none") == "eio" and not hard:
            self.stats["fault_not_fired/read_eio"] += 1
        if ack is None:
            # the save did not return: nothing is promised about this file (informational only)
            self.stats[f"probe/load_of_unacknowledged_file:{'raised' if exc is not None else 'returned'}"] += 1
            self.log.add("load", name, "unjudged", exc is None)
            return None
        key_save = "after-hard-fault-save" if ack["hard_fault_during_save"] else "clean-save"
        if exc is not None:
            if hard:
                self.stats["reach_load/raised_under_fault"] += 1
                self.log.add("load", name, "raised", type(exc).__name__)
                return None
            cls = "ACK-NOT-DURABLE" if ack["hard_fault_during_save"] else "ROUNDTRIP"
            v = Violation(cls, f"load of an acknowledged file raised {type(exc).__name__}: {exc} (faults fired on this load: "
                          f"{sorted(fired)}; save: {key_save})", {"op": "load", "kind": "raised", "save": key_save}, idx)
            self.log.add("load", name, "viol", v.cls)
            return v
        try:
            got = observed_music(seqs)
        except Exception as e:
            v = Violation("ROUNDTRIP", f"loaded sequences are unreadable: {type(e).__name__}: {e}",
                          {"op": "load", "kind": "unreadable", "save": key_save}, idx)
            return v
        diff = compare_music(ack["music"], got)
        self.judged += 1
        self.stats["reach_load/judged"] += 1
        if diff is not None:
            if hard:
                cls = "WRONG-DATA"
            elif ack["hard_fault_during_save"]:
                cls = "ACK-NOT-DURABLE"
            else:
                cls = "ROUNDTRIP"
            v = Violation(cls, f"{diff} (faults fired on this load: {sorted(fired)}; save: {key_save})",
                          {"op": "load", "kind": "different-music", "save": key_save}, idx)
            self.log.add("load", name, "viol", v.cls)
            return v
        if hard:
            self.stats["reach_load/returned_right_music_despite_read_fault"] += 1
        self.loaded[name] = (seqs, ack["music"])
        self.log.add("load", name, "ok", sorted(fired), core.digest_of(got))
        return None

    def _torn(self, ev, name, idx):
        """Informational probe: what does loading a torn file do? Never a violation (C12 promises nothing here)."""
        saved = self.disk.read_bytes(name)
        if len(saved) < 2:
            return None
        cut = ev.get("cut", 1) % len(saved)
        self.disk.write_bytes(name, saved[:cut])
        try:
            with self.disk:
                Sequence.sequences_load(file_path=self.disk.path(name))
            self.stats["probe/torn_file_load:returned"] += 1
        except core.RunTimeout:
            raise
        except Exception as e:
            _release_frames(e)
            self.stats[f"probe/torn_file_load:raised_{type(e).__name__}"] += 1
        self.disk.write_bytes(name, saved)
        self.log.add("torn_probe", name, cut)
        return None


# ------------------------------------------------------------------ C12 generation

def _disjoint_sigs(rng, horizon):
    ticks = sorted({rng.choice([0, 0, 24, 48, 96, rng.randrange(0, horizon + 1)]) for _ in range(rng.randrange(1, 4))})
    out = []
    prev = None
    for t in ticks:
        nd = rng.choice([(4, 4), (3, 4), (2, 4), (6, 8), (2, 2), (5, 4), (3, 8), (12, 8), (7, 16), (1, 2), (9, 32)])
        if nd != prev:
            out.append([t, nd[0], nd[1]])
            prev = nd
    return out


def gen_seq_list(rng):
    n = rng.choice([1, 1, 2, 2, 3, 4])
    carrier = rng.randrange(n)
    horizon = rng.choice([60, 200, 400])
    tsigs = _disjoint_sigs(rng, horizon) if rng.random() < 0.6 else []
    keys = []
    if rng.random() < 0.6:
        prev = None
        for t in sorted({rng.choice([0, 0, 48, rng.randrange(0, horizon + 1)]) for _ in range(rng.randrange(1, 4))}):
            k = rng.choice(music.KEYS)
            if k != prev:
                keys.append([t, k])
                prev = k
    out = []
    # either one designated carrier (optionally duplicated identically), or one consistent signature timeline whose
    # events are spread over the sequences (each event on a random non-empty subset; e.g. a piece whose accompaniment
    # carries the opening signature and whose melody carries the later changes)
    spread = n > 1 and rng.random() < 0.5
    holders_t = [sorted(rng.sample(range(n), rng.randrange(1, n + 1))) for _ in tsigs]
    holders_k = [sorted(rng.sample(range(n), rng.randrange(1, n + 1))) for _ in keys]
    for i in range(n):
        spec = music.gen_music(rng, max_notes=rng.choice([2, 5, 10]), channels=(rng.choice([0, 0, 1, 3]),), horizon=horizon,
                               sigs=False, extras=True, allow_empty=True,
                               pitches=sorted(rng.sample(range(0, 128), rng.randrange(1, 5))) if rng.random() < 0.15 else None)
        if spread:
            spec["tsigs"] = [list(x) for x, h in zip(tsigs, holders_t) if i in h]
            spec["keys"] = [list(x) for x, h in zip(keys, holders_k) if i in h]
        elif i == carrier or rng.random() < 0.2:
            spec["tsigs"] = [list(x) for x in tsigs]
            spec["keys"] = [list(x) for x in keys]
        # events that write no MIDI message (program change) or a channel message (control change) between timed events
        ch = spec["notes"][0][0] if spec["notes"] else 0
        for _ in range(rng.choice([0, 0, 1, 2])):
            spec["progs"].append([rng.randrange(0, horizon + 1), ch, rng.randrange(0, 128)])
        for _ in range(rng.choice([0, 0, 0, 1])):
            spec["ccs"].append([rng.randrange(0, horizon + 1), ch, rng.randrange(0, 120), rng.randrange(0, 128)])
        out.append({"spec": spec, "mode": rng.choice(["abs", "rel", "both", f"insert:{rng.randrange(1, 1 << 20)}",
                                                      f"insert2:{rng.randrange(1, 1 << 20)}"])})
        if rng.random() < 0.25:
            out[-1]["hist"] = [_gen_hist_op(rng, ch) for _ in range(rng.randrange(1, 4))]
    if n >= 2 and rng.random() < 0.1:
        # "conductor track": one sequence without notes that only carries signatures, restating one at regular distances
        # (A at d, A again at 2d - as bar-wise exports do), while another sequence changes that signature in between
        c, o = rng.sample(range(n), 2)
        d = rng.choice([24, 48, 96, 6 * rng.randrange(1, 30)])
        e = rng.randrange(1, d)
        for q in out:
            q["spec"]["tsigs"], q["spec"]["keys"] = [], []
        cs = out[c]["spec"]
        cs["notes"], cs["progs"], cs["ccs"], cs["tail"] = [], [], [], rng.choice([0, 0, 24])
        out[c].pop("hist", None)
        if rng.random() < 0.6:
            a, b = rng.sample([(4, 4), (3, 4), (2, 4), (6, 8), (5, 4), (7, 8)], 2)
            cs["tsigs"] = [[d, *a], [2 * d, *a]] + ([[3 * d, *a]] if rng.random() < 0.3 else [])
            out[o]["spec"]["tsigs"] = [[d + e, *b]]
        else:
            a, b = rng.sample(music.KEYS, 2)
            cs["keys"] = [[d, a], [2 * d, a]]
            out[o]["spec"]["keys"] = [[d + e, b]]
    return out


def _gen_hist_op(rng, ch):
    k = rng.choice(["pad", "pad", "add_note", "add_note", "add_note", "transpose", "quantise", "normalise", "copy", "read_abs",
                    "read_rel", "scale", "split_rejoin", "bars", "detok"])
    if k == "pad":
        return ["pad", rng.choice([1, 6, 24, 48, rng.randrange(1, 100)])]
    if k == "add_note":
        return ["add_note", rng.randrange(21, 109), rng.choice([0, 0, 1, 6, 24, rng.randrange(0, 60)]), rng.choice([1, 6, 12, 24, 5]),
                rng.randrange(1, 128), ch]
    if k == "transpose":
        return ["transpose", rng.choice([1, -1, 2, 5, -7])]
    if k == "split_rejoin":
        return ["split_rejoin", rng.choice([24, 48, 96, rng.randrange(1, 200)])]
    return [k]


def gen_plan(rng, direction, size_hint):
    r = rng.random()
    buf = rng.choice([1, 7, 64, 8192, 8192])
    if r < 0.35:
        return {"kind": "none", "buf": buf}
    if r < 0.6:
        return {"kind": "short", "pattern": rng.randrange(1, 1 << 20), "buf": buf}
    if r < 0.68:
        return {"kind": "eintr", "at": rng.randrange(0, max(1, size_hint)), "buf": buf, "also_short": rng.random() < 0.5,
                "pattern": rng.randrange(1, 1 << 20)}
    if rng.random() < 0.08:
        return {"kind": "open_error", "buf": buf, "persist": rng.random() < 0.6}
    if direction == "w" and rng.random() < 0.05:
        # seams without a call site in the pinned tree (configured, never fired there): rename / fsync of an atomic save
        return {"kind": rng.choice(["rename_error", "fsync_error"]), "buf": buf, "persist": True}
    at = rng.randrange(0, max(1, size_hint)) if rng.random() < 0.85 else rng.randrange(0, size_hint * 2 + 50)
    kind = "eio" if direction == "r" else rng.choice(["enospc", "eio"])
    return {"kind": kind, "at": at, "buf": buf, "also_short": rng.random() < 0.3, "pattern": rng.randrange(1, 1 << 20),
            "persist": rng.random() < 0.6, "once": rng.random() < 0.35}


def c12_run_one(seed, tier, index):
    rng = random.Random(seed)
    lane = "baseline" if rng.random() < 0.25 else "fault"
    pool = [gen_seq_list(rng) for _ in range(rng.choice([1, 1, 2]))]
    init = {"pool": pool}
    world = DiskWorld(init)
    events = []
    viol = None
    names = ["a", "b"]
    n_ops = rng.randrange(2, 7)
    size_hint = 60
    for k in range(n_ops):
        have = sorted(set(world.disk.names()) | {n for n, a in world.acked.items() if a is not None})
        if k == 0 or (rng.random() < 0.4) or not have:
            ev = {"op": "save", "name": rng.choice(names), "which": rng.randrange(len(pool)),
                  "plan": {"kind": "none", "buf": 8192} if lane == "baseline" else gen_plan(rng, "w", size_hint),
                  "via": rng.choice(["save", "sequences_save", "sequences_save", "composition"]), "pathlib": rng.random() < 0.2}
        elif rng.random() < 0.08 and lane == "fault":
            ev = {"op": "torn_probe", "name": rng.choice(have), "cut": rng.randrange(1, 4096)}
        elif world.loaded and rng.random() < 0.2:
            ev = {"op": "resave", "src": rng.choice(sorted(world.loaded)), "name": rng.choice(names)}
        else:
            ev = {"op": "load", "name": rng.choice(have), "pathlib": rng.random() < 0.2,
                  "plan": {"kind": "none", "buf": 8192} if lane == "baseline" else gen_plan(rng, "r", size_hint)}
        events.append(ev)
        viol = world.apply(ev, len(events) - 1)
        sizes = [world.disk.size_of(world.disk.path(n)) for n in world.disk.names()]
        if sizes:
            size_hint = max(sizes) or size_hint
        if viol is not None or world.foreign:
            break
    return _c12_result(world, viol, {"engine": "simdisk/C12", "seed": seed, "lane": lane, "init": init, "events": events})


def _c12_result(world, viol, trace):
    world.disk.cleanup()
    res = RunResult()
    res.trace = trace
    res.violation = viol
    res.foreign = world.foreign
    res.stats = world.stats
    lane = trace.get("lane", "replay")
    res.stats[f"lane/{lane}_runs"] += 1
    if viol is not None:
        res.stats[f"lane/{lane}_violations"] += 1
    res.events = world.log.n
    res.digest = world.log.digest()
    res.abstract = zlib.crc32(repr(world.abstract).encode()) | (len(world.abstract) << 32)
    res.nontrivial = world.judged > 0 and world.faults_fired > 0
    res.log = world.log
    return res


def c12_replay(trace, keep_log=False):
    world = DiskWorld(trace["init"], keep_log=keep_log)
    viol = None
    for i, ev in enumerate(trace["events"]):
        viol = world.apply(ev, i)
        if viol is not None or world.foreign:
            break
    return _c12_result(world, viol, trace)


def _c12_simplify(trace):
    pool = trace["init"]["pool"]
    for pi, lst in enumerate(pool):
        if len(lst) > 1:
            for k in range(len(lst)):
                t = dict(trace)
                t["init"] = {"pool": pool[:pi] + [lst[:k] + lst[k + 1:]] + pool[pi + 1:]}
                yield t
        for k, s in enumerate(lst):
            for sp in music.simplify_spec(s["spec"]):
                t = dict(trace)
                t["init"] = {"pool": pool[:pi] + [lst[:k] + [dict(s, spec=sp)] + lst[k + 1:]] + pool[pi + 1:]}
                yield t
    evs = trace["events"]
    for j, ev in enumerate(evs):
        p = ev.get("plan")
        if p and p.get("kind", "none") != "none":
            t = dict(trace)
            t["events"] = evs[:j] + [dict(ev, plan={"kind": "none", "buf": 8192})] + evs[j + 1:]
            yield t
        if p and p.get("also_short"):
            t = dict(trace)
            t["events"] = evs[:j] + [dict(ev, plan=dict(p, also_short=False))] + evs[j + 1:]
            yield t
        if p and p.get("buf", 8192) != 8192:
            t = dict(trace)
            t["events"] = evs[:j] + [dict(ev, plan=dict(p, buf=8192))] + evs[j + 1:]
            yield t


class _DiskEngine:
    REAL = ["scoda Sequence.sequences_save / sequences_load / save, MidiFile, MidiTrack, MidiMessage", "mido SMF codec",
            "CPython io.BufferedWriter / io.BufferedReader"]
    STUB = ["raw block device and directory (SimRaw / SimDisk, in memory)", "C13 only: the external MIDI writer is the harness"]

    @staticmethod
    def sample_kind(r):
        lane = r.trace.get("lane")
        if lane == "baseline":
            return "baseline"
        if r.nontrivial:
            if any(k.startswith("fault/write_e") or k.startswith("fault/read_eio") for k in r.stats):
                return "fault-non-maskable"
            return "fault-maskable"
        return None


class C12Engine(_DiskEngine):
    ESSENTIAL = ["reach_load/judged", "reach_save/acknowledged"]
    name = "simdisk/C12"
    RULE = ("one run = one seeded history of 2-6 saves / loads (and informational torn-file probes) of 1-4 generated sequences "
            "(signatures on one carrier sequence, duplicated, or one consistent timeline spread over the sequences; program / control "
            "changes between notes; full pitch range) against the run's simulated disk, over three save routes (sequences_save, save, "
            "Composition.save); every open draws a buffer size in {1, 7, 64, 8192} and a fault plan (none | short counts | one EINTR | "
            "ENOSPC / EIO at byte k, k mostly inside the real file length; persistent over the operation's opens or first open only; "
            "permanent or transient within an open). distinct_nontrivial counts distinct abstract histories (crc of the sequence of "
            "(op, planned fault, faults that fired, returned?)) among runs with >=1 judged load AND >=1 fired fault.")
    ASSUMPTIONS = [
        "only successful returns are judged; every raise under a fired non-maskable fault is accepted",
        "sequences are single-channel, well-formed, integer-tick, velocities 1..127; signatures are carried by one designated sequence "
        "(optionally duplicated identically), never two conflicting signatures on one tick",
        "S-Coda has no fault-handling code of its own: the fault lane mostly guards against introducing some (swallowed OSError, early return); "
        "the S-Coda-specific content is the baseline lane plus 'no silent success under a non-maskable fault'",
    ]

    @staticmethod
    def run_one(seed, tier, index):
        try:
            return c12_run_one(seed, tier, index)
        finally:
            _sweep()

    @staticmethod
    def replay(trace, keep_log=False):
        try:
            return c12_replay(trace, keep_log)
        finally:
            _sweep()

    @staticmethod
    def simplify(trace):
        return _c12_simplify(trace)

    @staticmethod
    def zero_cells(stats):
        want = ["fault/short_write", "fault/short_read", "fault/write_eintr", "fault/read_eintr", "fault/write_enospc",
                "fault/write_eio", "fault/read_eio",
                "reach_save/raised_under_fault", "reach_load/raised_under_fault", "reach_load/judged"]
        return [w for w in want if stats.get(w, 0) == 0]


# =====================================================================================
# C13: loading files written by an external writer
# =====================================================================================

def _varlen(n):
    out = [n & 0x7F]
    n >>= 7
    while n:
        out.append((n & 0x7F) | 0x80)
        n >>= 7
    return bytes(reversed(out))


def write_smf_raw(tpb, tracks):
    """Minimal SMF type-1 writer with running status and note_on-velocity-0 note-offs where requested."""
    out = bytearray(b"MThd" + struct.pack(">LhhH", 6, 1, len(tracks), tpb))
    for evs in tracks:
        data = bytearray()
        last = 0
        status = None
        for e in evs:
            data += _varlen(e["tick"] - last)
            last = e["tick"]
            k = e["k"]
            if k in ("on", "off"):
                if k == "on":
                    st, d2 = 0x90 | e["ch"], e["vel"]
                elif e.get("as_on0"):
                    st, d2 = 0x90 | e["ch"], 0
                else:
                    st, d2 = 0x80 | e["ch"], e.get("vel", 0)
                if st != status:
                    data.append(st)
                    status = st
                data += bytes([e["pitch"], d2])
            elif k == "ts":
                data += bytes([0xFF, 0x58, 4, e["num"], e["den"].bit_length() - 1, 24, 8])
            elif k == "ks":
                data += bytes([0xFF, 0x59, 2, e["sf"] & 0xFF, 1 if e.get("minor") else 0])
            elif k == "pc":
                st = 0xC0 | e["ch"]
                if st != status:
                    data.append(st)
                    status = st
                data.append(e["prog"])
            elif k == "other":
                t = e["type"]
                if t == "set_tempo":
                    data += bytes([0xFF, 0x51, 3]) + int(e["v"]).to_bytes(3, "big")
                elif t in ("marker", "track_name", "lyrics"):
                    txt = ("x" * (e["v"] % 5 + 1)).encode()
                    data += bytes([0xFF, {"marker": 6, "track_name": 3, "lyrics": 5}[t], len(txt)]) + txt
                elif t == "control_change":
                    st = 0xB0 | e["ch"]
                    if st != status:
                        data.append(st)
                        status = st
                    data += bytes([e["v"] % 120, e["v"] % 128])
                elif t == "pitchwheel":
                    st = 0xE0 | e["ch"]
                    if st != status:
                        data.append(st)
                        status = st
                    data += bytes([e["v"] % 128, (e["v"] // 128) % 128])
                elif t == "aftertouch":
                    st = 0xD0 | e["ch"]
                    if st != status:
                        data.append(st)
                        status = st
                    data.append(e["v"] % 128)
        data += b"\x00\xFF\x2F\x00"
        out += b"MTrk" + struct.pack(">L", len(data)) + data
    return bytes(out)


# mido reports minor keys as e.g. 'Am'; S-Coda's Key enum has the fifteen major keys only and stores the relative major
_MINOR = {"Am": "C", "Em": "G", "Bm": "D", "F#m": "A", "C#m": "E", "G#m": "B", "D#m": "F#", "Dm": "F", "Gm": "Bb", "Cm": "Eb",
          "Fm": "Ab", "Bbm": "Db", "Ebm": "Gb"}
_SF = {"C": 0, "G": 1, "D": 2, "A": 3, "E": 4, "B": 5, "F#": 6, "C#": 7, "F": -1, "Bb": -2, "Eb": -3, "Ab": -4, "Db": -5,
       "Gb": -6, "Cb": -7}


def write_smf_mido(tpb, tracks):
    mf = mido.MidiFile(ticks_per_beat=tpb)
    for evs in tracks:
        tr = mido.MidiTrack()
        last = 0
        for e in evs:
            dt = e["tick"] - last
            last = e["tick"]
            k = e["k"]
            if k == "on":
                tr.append(mido.Message("note_on", channel=e["ch"], note=e["pitch"], velocity=e["vel"], time=dt))
            elif k == "off":
                if e.get("as_on0"):
                    tr.append(mido.Message("note_on", channel=e["ch"], note=e["pitch"], velocity=0, time=dt))
                else:
                    tr.append(mido.Message("note_off", channel=e["ch"], note=e["pitch"], velocity=e.get("vel", 0), time=dt))
            elif k == "ts":
                tr.append(mido.MetaMessage("time_signature", numerator=e["num"], denominator=e["den"], time=dt))
            elif k == "ks":
                tr.append(mido.MetaMessage("key_signature", key=e.get("file_key", e["key"]), time=dt))
            elif k == "pc":
                tr.append(mido.Message("program_change", channel=e["ch"], program=e["prog"], time=dt))
            elif k == "other":
                t = e["type"]
                if t == "set_tempo":
                    tr.append(mido.MetaMessage("set_tempo", tempo=int(e["v"]), time=dt))
                elif t in ("marker", "track_name", "lyrics"):
                    tr.append(mido.MetaMessage(t, **{"name" if t == "track_name" else "text": "x" * (e["v"] % 5 + 1)}, time=dt))
                elif t == "control_change":
                    tr.append(mido.Message("control_change", channel=e["ch"], control=e["v"] % 120, value=e["v"] % 128, time=dt))
                elif t == "pitchwheel":
                    tr.append(mido.Message("pitchwheel", channel=e["ch"], pitch=(e["v"] % 128 + 128 * ((e["v"] // 128) % 128)) - 8192, time=dt))
                elif t == "aftertouch":
                    tr.append(mido.Message("aftertouch", channel=e["ch"], value=e["v"] % 128, time=dt))
        mf.tracks.append(tr)
    bio = io.BytesIO()
    mf.save(file=bio)
    return bio.getvalue()


def exact(tick, tpb):
    return Fraction(tick * PPQN, tpb)


def nearest_ok(t, ex):
    return abs(Fraction(t) - ex) <= Fraction(1, 2)


def nearest_unique(ex):
    """Nearest integer; None on an exact tie."""
    fl = ex.numerator // ex.denominator
    frac = ex - fl
    if frac == Fraction(1, 2):
        return None
    return fl if frac < Fraction(1, 2) else fl + 1


def gen_c13_file(rng, tier):
    tpb = rng.choice([24, 48, 96, 120, 192, 240, 384, 480, 960, 7, 100, 1000, 25, 36, 360, 1024, 13])
    ntracks = rng.choice([1, 2, 2, 3, 4, 5])
    # grouping: random partition of a random subset of the tracks
    idx = list(range(ntracks))
    rng.shuffle(idx)
    used = idx[: rng.randrange(1, ntracks + 1)]
    groups = []
    cur = []
    for t in used:
        cur.append(t)
        if rng.random() < 0.55:
            groups.append(cur)
            cur = []
    if cur:
        groups.append(cur)
    use_default_groups = rng.random() < 0.15
    if use_default_groups:
        groups = [[i] for i in range(ntracks)]
    meta = None if rng.random() < 0.3 else sorted(rng.sample(range(ntracks), rng.randrange(0, ntracks + 1)))
    target = rng.randrange(len(groups))
    min_len = -(-2 * tpb // PPQN) + 1          # > 2 library ticks in file ticks
    n_notes = rng.choice([2, 6, 12]) if tier == "quick" else rng.choice([2, 6, 12, 40, 150])
    tracks = [[] for _ in range(ntracks)]
    group_of = {}
    for gi, g in enumerate(groups):
        for t in g:
            group_of[t] = gi
    # notes: generated per group (non-overlap per (channel, pitch) inside a group), then dealt to the group's tracks;
    # tracks outside every group get their own notes (which must not show up anywhere)
    owners = [("g", gi) for gi in range(len(groups))] + [("t", t) for t in range(ntracks) if t not in group_of]
    for kind, oid in owners:
        members = groups[oid] if kind == "g" else [oid]
        # "canon": one track of the group plays a phrase, another one repeats exactly that phrase later (an echo, a loop laid
        # out on two tracks) - two tracks that are equal note for note except for WHEN they play
        canon = kind == "g" and len(members) >= 2 and rng.random() < 0.12
        canon_from = len(tracks[members[0]])
        last_end = {}
        chans = [rng.randrange(0, 16) for _ in range(rng.choice([1, 1, 2]))]
        pitches = sorted({rng.randrange(21, 109) for _ in range(rng.randrange(1, 5))})
        # now and then the music starts far out (beyond 2**24 file ticks: single-precision arithmetic would show)
        pos = 0 if rng.random() < 0.92 else rng.choice([tpb * 4000, 1 << 24, (1 << 24) + rng.randrange(0, 10 * tpb)])
        for _ in range(n_notes if rng.random() < 0.9 else 0):
            ch = rng.choice(chans)
            p = rng.choice(pitches)
            pos += rng.choice([0, 1, 1, rng.randrange(0, 3 * tpb + 1), rng.randrange(0, max(2, tpb // 3))])
            on = max(pos, last_end.get((ch, p), 0))
            dur = min_len + rng.choice([0, 1, rng.randrange(0, 2 * tpb + 1)])
            vel = rng.randrange(1, 128)
            tr = members[0] if canon else rng.choice(members)
            as_on0 = rng.random() < 0.4
            tracks[tr].append({"tick": on, "k": "on", "ch": ch, "pitch": p, "vel": vel})
            tracks[tr].append({"tick": on + dur, "k": "off", "ch": ch, "pitch": p, "as_on0": as_on0, "vel": rng.choice([0, 64])})
            # same (channel, pitch) notes of a group stay >= 2 library ticks apart: on an exact .5 tie the two ends of touching
            # notes may legitimately round to different ticks, the notes then overlap by one tick and are fused - the
            # *sounding set* is still the union, but a note-by-note comparison would raise a false alarm (it did, once)
            last_end[(ch, p)] = on + dur + min_len
        if canon:
            phrase = tracks[members[0]][canon_from:]
            if phrase:
                shift = max(e["tick"] for e in phrase) + min_len + rng.randrange(0, 2 * tpb + 1)
                tracks[members[1]].extend(dict(e, tick=e["tick"] + shift) for e in phrase)
        if rng.random() < 0.2:
            # "grace notes and trills": very short (0 .. 2 library ticks), touching and re-struck notes on a (channel, pitch) of
            # their own. What they load as is not judged (a zero-length or fused note has no defined reading); they are there
            # because whatever the loader does with them must not touch the notes of the OTHER pitches, which stay under
            # the exact oracle
            free = [q for q in range(21, 109) if q not in pitches]
            if free:
                npitch = rng.choice(free)
                nch = rng.choice(chans)
                tiny = sorted({0, 1, max(1, tpb // 48), max(1, tpb // 24), max(1, tpb // 12)})
                pos = rng.choice([0, rng.randrange(0, 4 * tpb + 1)])
                for _ in range(rng.randrange(2, 12)):
                    dur = rng.choice(tiny)
                    tr = rng.choice(members)
                    tracks[tr].append({"tick": pos, "k": "on", "ch": nch, "pitch": npitch, "vel": rng.randrange(1, 128), "noise": 1})
                    tracks[tr].append({"tick": pos + dur, "k": "off", "ch": nch, "pitch": npitch, "as_on0": rng.random() < 0.4,
                                       "vel": 0, "noise": 1})
                    pos += dur + rng.choice([0, 0, 1, max(1, tpb // 24), rng.randrange(0, tpb + 1)])
    # unison overlaps: two tracks of one group play the SAME (channel, pitch) at overlapping times (divisi parts doubling a
    # note, also both starting on tick 0). Merging fuses them into one note from the earliest start to the latest end; what
    # must hold is the *sounding set*. File ticks are multiples of the reduced denominator, so their positions are exact
    # integers and the expected set has no rounding ambiguity. A pitch of its own keeps the note-by-note oracle intact.
    unison = []
    multi = [gi for gi, g in enumerate(groups) if len(g) >= 2]
    if multi and rng.random() < 0.35:
        from math import gcd
        qd = tpb // gcd(PPQN, tpb)
        unit = qd * max(1, -(-3 * gcd(PPQN, tpb) // PPQN))      # >= 3 library ticks
        gi = rng.choice(multi)
        used = {e["pitch"] for t in groups[gi] for e in tracks[t] if e["k"] in ("on", "off")}
        free = [p for p in range(21, 109) if p not in used]
        if free:
            up = rng.choice(free)
            uch = rng.randrange(16)
            t0 = rng.choice([0, 0, unit * rng.randrange(0, 8)])
            for _ in range(rng.choice([1, 1, 2, 3])):
                ta, tb_ = rng.sample(groups[gi], 2)
                la, lb = unit * rng.randrange(1, 6), unit * rng.randrange(1, 6)
                off_b = t0 + (rng.choice([0, 0, unit]) if rng.random() < 0.7 else unit * rng.randrange(0, 4))
                va = rng.randrange(1, 128)
                vb = va if rng.random() < 0.5 else rng.randrange(1, 128)
                tracks[ta].append({"tick": t0, "k": "on", "ch": uch, "pitch": up, "vel": va, "unison": 1})
                tracks[ta].append({"tick": t0 + la, "k": "off", "ch": uch, "pitch": up, "as_on0": False, "vel": 0, "unison": 1})
                tracks[tb_].append({"tick": off_b, "k": "on", "ch": uch, "pitch": up, "vel": vb, "unison": 1})
                tracks[tb_].append({"tick": off_b + lb, "k": "off", "ch": uch, "pitch": up, "as_on0": False, "vel": 0, "unison": 1})
                unison.append([gi, uch, up])
                t0 = max(t0 + la, off_b + lb) + unit * rng.randrange(2, 5)
    # signatures: on arbitrary tracks; distinct positions >= 2 library ticks apart, never on an exact rounding tie
    horizon = max([e["tick"] for tr in tracks for e in tr] + [4 * tpb])
    sig_ticks = []
    for _ in range(rng.choice([0, 1, 2, 3, 5])):
        for _try in range(6):
            tick = rng.choice([0, 0, rng.randrange(0, horizon + 1)])
            if rng.random() < 0.3:
                # a file tick a little off a library tick (off tick 0 most of all): rounds onto it, but is not ON it
                k = rng.choice([0, 0, 0, 1, rng.randrange(0, 200)])
                tick = max(0, k * tpb // PPQN + rng.randrange(-(tpb // 50) - 1, tpb // 50 + 2))
            if nearest_unique(exact(tick, tpb)) is None:
                continue
            if all(abs(exact(tick, tpb) - exact(o, tpb)) >= 2 for o in sig_ticks):
                sig_ticks.append(tick)
                break
    prev_ts = prev_ks = None
    for tick in sorted(sig_ticks):
        tr = rng.randrange(ntracks)
        if rng.random() < 0.6:
            nd = rng.choice([(4, 4), (3, 4), (6, 8), (2, 2), (5, 4), (7, 8), (12, 8), (3, 16),
                             (rng.randrange(1, 33), rng.choice([1, 2, 4, 8, 16, 32]))])
            tracks[tr].append({"tick": tick, "k": "ts", "num": nd[0], "den": nd[1]})
        else:
            if rng.random() < 0.25:
                mk = rng.choice(sorted(_MINOR))
                tracks[tr].append({"tick": tick, "k": "ks", "key": _MINOR[mk], "file_key": mk, "sf": _SF[_MINOR[mk]], "minor": 1})
            else:
                k = rng.choice(music.KEYS)
                tracks[tr].append({"tick": tick, "k": "ks", "key": k, "sf": _SF[k]})
    if rng.random() < 0.3:
        tr = rng.randrange(ntracks)
        tracks[tr].append({"tick": rng.choice([0, rng.randrange(0, horizon + 1)]), "k": "pc", "ch": rng.randrange(16), "prog": rng.randrange(128)})
    # messages S-Coda ignores (tempo, text, controllers, pitch wheel...) still carry delta times that must be counted
    for tr in tracks:
        for _ in range(rng.choice([0, 0, 1, 3, 8])):
            tr.append({"tick": rng.randrange(0, horizon + 1), "k": "other", "ch": rng.randrange(16),
                       "type": rng.choice(["set_tempo", "marker", "track_name", "lyrics", "control_change", "pitchwheel", "aftertouch"]),
                       "v": rng.randrange(1, 1 << 14) if True else 0})
    order = {"ts": 0, "ks": 1, "pc": 2, "other": 2, "off": 3, "on": 4}
    for tr in tracks:
        tr.sort(key=lambda e: (e["tick"], order[e["k"]]))
    return {"tpb": tpb, "tracks": tracks, "groups": None if use_default_groups else groups, "meta": meta, "target": target,
            "writer": rng.choice(["mido", "raw"]), "unison": unison}


def gen_c13_endurance(rng, sizes=(45000, 60000)):
    """'never accumulating along the track': one very long track (10^5 notes, 2*10^5 messages) at a resolution whose scaling
    factor 24/tpb has no short decimal expansion, tiny deltas. A drift of 10^-6 tick per message is invisible on any ordinary
    file and moves events by more than half a tick here."""
    tpb = rng.choice([7, 13, 360, 9, 11, 14, 26, 28, 33, 44, 52, 72, 88, 104, 180, 720, 1024, 17, 19, 21, 23, 1000, 96])
    min_len = -(-2 * tpb // PPQN) + 1
    n = rng.choice(sizes)
    gap = rng.choice([0, 1, 1, 2])
    length = min_len + rng.choice([0, 0, 1])
    evs = [{"tick": 0, "k": "ts", "num": 3, "den": 4}]
    t = rng.randrange(0, 5)
    ch = rng.randrange(16)
    as_on0 = rng.random() < 0.5
    for i in range(n):
        p = 30 + i % 60
        evs.append({"tick": t, "k": "on", "ch": ch, "pitch": p, "vel": 1 + i % 127})
        evs.append({"tick": t + length, "k": "off", "ch": ch, "pitch": p, "as_on0": as_on0 and i % 2 == 0, "vel": 0})
        t += length + gap
    return {"tpb": tpb, "tracks": [evs], "groups": [[0]], "meta": [0], "target": 0, "writer": rng.choice(["mido", "raw"]),
            "endurance": True}


def gen_c13_neartie(rng):
    """Drift-sensitive file: a high resolution (legal SMF divisions go up to 32767) whose reduced denominator q is large,
    note events placed on file ticks whose exact position is 1/(2q) (or 1/q) away from a rounding tie, and many small-delta
    filler messages in between. An accumulated error of a few 1e-5 ticks - invisible anywhere else - moves an event to the
    wrong side of the tie here, i.e. more than half a tick from its exact position; float64 noise (~1e-8 over such a track)
    does not."""
    from math import gcd
    tpb = rng.choice([997, 1009, 4093, 9973, 12007, 32749, 32767, 15360, 10000, 7919])
    g = gcd(PPQN, tpb)
    q, p_ = tpb // g, PPQN // g
    inv = pow(p_, -1, q)
    lo_r = q // 2 if q % 2 else q // 2 - 1          # just below the tie
    hi_r = q // 2 + 1                                # just above the tie
    t_lo, t_hi = (lo_r * inv) % q, (hi_r * inv) % q
    # t_lo / t_hi lie anywhere in [0, q), i.e. up to p_ library ticks into their period: a period of p_ + 3 or more library
    # ticks keeps every note at least 2 library ticks long after rounding
    step = q * (1 + -(-3 // p_))
    evs = [{"tick": 0, "k": "ts", "num": 4, "den": 4}]
    ch = rng.randrange(16)
    notes = rng.choice([30, 60, 120])
    fill = rng.choice([10, 30, 60])
    t = 0
    for k in range(notes):
        on = t_lo + (2 * k + 1) * step if rng.random() < 0.5 else t_hi + (2 * k + 1) * step
        off = (t_hi if rng.random() < 0.5 else t_lo) + (2 * k + 2) * step
        for target, kind in ((on, "on"), (off, "off")):
            # filler messages with tiny deltas up to the target tick
            span = target - t
            if span > fill:
                pts = sorted(rng.sample(range(1, span), fill))
                for x in pts:
                    evs.append({"tick": t + x, "k": "pc", "ch": ch, "prog": x % 128})
            if kind == "on":
                evs.append({"tick": target, "k": "on", "ch": ch, "pitch": 30 + k % 60, "vel": 1 + k % 127})
            else:
                evs.append({"tick": target, "k": "off", "ch": ch, "pitch": 30 + k % 60, "as_on0": k % 2 == 0, "vel": 0})
            t = target
    return {"tpb": tpb, "tracks": [evs], "groups": [[0]], "meta": [0], "target": 0, "writer": rng.choice(["mido", "raw"]),
            "neartie": True}


def c13_expect(f):
    tpb = f["tpb"]
    ntracks = len(f["tracks"])
    groups = f["groups"] if f["groups"] is not None else [[i] for i in range(ntracks)]
    meta = f["meta"] if f["meta"] is not None else list(range(ntracks))
    in_group = {}
    for gi, g in enumerate(groups):
        for t in g:
            in_group.setdefault(t, gi)
    exp_notes = [[] for _ in groups]
    uni_sets = [dict() for _ in groups]
    noise = [set() for _ in groups]
    uni_open = {}
    ts_pts, ks_pts = [], []
    for t, evs in enumerate(f["tracks"]):
        considered = t in in_group or t in meta
        if not considered:
            continue
        open_ = {}
        for e in evs:
            if e.get("noise"):
                if t in in_group:
                    noise[in_group[t]].add((e["ch"], e["pitch"]))
                continue
            if e.get("unison"):
                if t in in_group:
                    if e["k"] == "on":
                        uni_open[(t, e["ch"], e["pitch"])] = e["tick"]
                    elif (t, e["ch"], e["pitch"]) in uni_open:
                        a = exact(uni_open.pop((t, e["ch"], e["pitch"])), tpb)
                        b = exact(e["tick"], tpb)
                        uni_sets[in_group[t]].setdefault((e["ch"], e["pitch"]), set()).update(range(int(a), int(b)))
                continue
            if e["k"] == "on" and t in in_group:
                open_.setdefault((e["ch"], e["pitch"]), []).append(e)
            elif e["k"] == "off" and t in in_group:
                q = open_.get((e["ch"], e["pitch"]))
                if q:
                    on = q.pop(0)
                    exp_notes[in_group[t]].append((on["ch"], on["pitch"], on["vel"], exact(on["tick"], tpb), exact(e["tick"], tpb)))
            elif e["k"] == "ts":
                ts_pts.append((nearest_unique(exact(e["tick"], tpb)), (e["num"], e["den"])))
            elif e["k"] == "ks":
                ks_pts.append((nearest_unique(exact(e["tick"], tpb)), e["key"]))
    for lst in exp_notes:
        lst.sort(key=lambda n: (n[0], n[1], n[3]))
    ts_pts.sort(key=lambda x: x[0])
    ks_pts.sort(key=lambda x: x[0])
    return {"notes": exp_notes, "ts": function_in_force(ts_pts, (4, 4)), "ks": function_in_force(ks_pts, None),
            "n_groups": len(groups), "unison": uni_sets, "noise": noise}


def c13_compare(f, seqs):
    exp = c13_expect(f)
    if len(seqs) != exp["n_groups"]:
        return "GROUPS", f"{len(seqs)} sequences returned for {exp['n_groups']} track groups"
    target = f["target"]
    for gi, s in enumerate(seqs):
        msgs = s.abs._messages
        notes, odd = piano_roll(msgs)
        if exp["noise"][gi]:
            notes = [n for n in notes if (n[0], n[1]) not in exp["noise"][gi]]
            odd = [o for o in odd if (o[1], o[2]) not in exp["noise"][gi]]
        if odd:
            return "ROUTING", f"group {gi}: unpaired note events after loading: {odd[:3]}"
        uni = exp["unison"][gi]
        if uni:
            sounding = {}
            for (ch, p, on, dur, vel) in notes:
                if (ch, p) in uni:
                    sounding.setdefault((ch, p), set()).update(range(on, on + dur))
            for k_, want_set in uni.items():
                if sounding.get(k_, set()) != want_set:
                    miss = sorted(want_set - sounding.get(k_, set()))[:6]
                    extra = sorted(sounding.get(k_, set()) - want_set)[:6]
                    return "ROUTING", (f"group {gi}: sounding set of (channel, pitch) {k_} played in unison by two tracks of the group is "
                                       f"not the union of the tracks: missing ticks {miss}, extra ticks {extra}")
            notes = [n for n in notes if (n[0], n[1]) not in uni]
        got = sorted(((ch, p, vel, on, on + dur) for (ch, p, on, dur, vel) in notes), key=lambda n: (n[0], n[1], n[3]))
        want = exp["notes"][gi]
        if len(got) != len(want):
            return "ROUTING", (f"group {gi} ({(f['groups'] or 'default')}): {len(got)} notes loaded, union of the group's tracks has "
                               f"{len(want)}")
        for g, w in zip(got, want):
            if g[:3] != w[:3]:
                return "ROUTING", f"group {gi}: note (channel, pitch, velocity) {g[:3]} != {w[:3]}"
            if not nearest_ok(g[3], w[3]) or not nearest_ok(g[4], w[4]):
                return "RESCALE", (f"group {gi}: note {g[:3]} loaded at [{g[3]}, {g[4]}], exact position "
                                   f"[{float(w[3]):.3f}, {float(w[4]):.3f}] (tpb {f['tpb']}): more than half a tick off")
        # the statement wants every signature ON the designated meta sequence; it does not forbid a loader that also leaves
        # a track's own signatures on its sequence, so their presence elsewhere is not judged
    meta_msgs = seqs[target].abs._messages
    ts = timesig_in_force(meta_msgs, (4, 4))
    ks = key_in_force(meta_msgs, None)
    if ts != exp["ts"]:
        return "SIGNATURE", f"time signature in force on meta sequence {target}: loaded {ts} != expected {exp['ts']}"
    if ks != exp["ks"]:
        return "SIGNATURE", f"key signature in force on meta sequence {target}: loaded {ks} != expected {exp['ks']}"
    return None


class LoadWorld:
    def __init__(self, init, keep_log=False):
        self.log = EventLog(keep_log)
        self.stats = core.Counter()
        self.disk = SimDisk(self.stats)
        self.file = init["file"]
        self.abstract = []
        self.foreign = None
        self.faults_fired = 0
        self.judged = 0
        f = self.file
        data = write_smf_mido(f["tpb"], f["tracks"]) if f["writer"] == "mido" else write_smf_raw(f["tpb"], f["tracks"])
        self.disk.write_bytes("in", data)
        self.size = len(data)
        self.parsed = None
        # a second file of the same shape (same resolution, track count, number of messages and length per track), one note
        # moved: "another take of the same piece", loaded in the same process
        self.file2 = init.get("file2")
        self.parsed2 = None
        if self.file2 is not None:
            f2 = self.file2
            self.disk.write_bytes("in2", write_smf_mido(f2["tpb"], f2["tracks"]) if f2["writer"] == "mido"
                                  else write_smf_raw(f2["tpb"], f2["tracks"]))
            self.stats["reach_load/runs_with_a_sibling_file"] += 1
        self.stats[f"reach_writer/{f['writer']}"] += 1
        self.stats[f"reach_tpb/{f['tpb']}"] += 1

    def apply(self, ev, idx):
        f = self.file
        name = "in"
        if ev.get("which") and self.file2 is not None:
            f, name = self.file2, "in2"
            self.parsed, self.parsed2 = self.parsed2, self.parsed      # each file has its own parsed object
            try:
                return self._apply(ev, idx, f, name)
            finally:
                self.parsed, self.parsed2 = self.parsed2, self.parsed
        return self._apply(ev, idx, f, name)

    def _apply(self, ev, idx, f, name):
        if ev.get("regroup"):
            # the same file (and, on the midi_file / convert routes, the same parsed object) asked for under another grouping:
            # what a conversion returns must depend on its arguments and on the file, not on what was asked before
            f = dict(f, groups=ev["regroup"]["groups"], meta=ev["regroup"]["meta"], target=ev["regroup"]["target"])
            self.stats["reach_load/regrouped"] += 1
            if self.parsed is not None:
                self.stats["reach_load/regrouped_on_a_parse_that_was_converted_before"] += 1
        plan = ev.get("plan") or {}
        self.disk.next_plan = plan
        self.disk.fired_now = set()
        exc = None
        seqs = None
        route = ev.get("route", "path")
        ti = [list(g) for g in f["groups"]] if f["groups"] is not None else None
        mi = list(f["meta"]) if f["meta"] is not None else None
        try:
            with self.disk:
                if route == "midi_file":
                    # parse once, convert through sequences_load(midi_file=...) - possibly a second time on the same object
                    if self.parsed is None:
                        from scoda.midi.midi_file import MidiFile
                        self.parsed = MidiFile.open(self.disk.path(name))
                    seqs = Sequence.sequences_load(midi_file=self.parsed, track_indices=ti, meta_track_indices=mi,
                                                   target_meta_track_index=f["target"])
                elif route == "convert" and ti is not None and mi is not None:
                    from scoda.midi.midi_file import MidiFile
                    if self.parsed is None:
                        self.parsed = MidiFile.open(self.disk.path(name))
                    seqs = self.parsed.convert(ti, mi, f["target"])
                elif route == "positional":
                    seqs = Sequence.sequences_load(self.disk.path(name), None, ti, mi, f["target"])
                else:
                    seqs = Sequence.sequences_load(file_path=self.disk.path(name), track_indices=ti, meta_track_indices=mi,
                                                   target_meta_track_index=f["target"])
        except core.RunTimeout:
            raise
        except Exception as e:
            exc = e
            _release_frames(e)
        fired = set(self.disk.fired_now)
        hard = "read_eio" in fired or "open_error" in fired
        self.faults_fired += len(fired)
        self.stats[f"reach_route/{route}"] += 1
        self.abstract.append(zlib.crc32(f"load|{route}|{plan.get('kind', 'none')}|{sorted(fired)}|{exc is None}|{f['tpb']}|{f['writer']}".encode()))
        if plan.get("kind", "none") == "eio" and not hard:
            self.stats["fault_not_fired/read_eio"] += 1
        if exc is not None:
            if hard:
                self.stats["reach_load/raised_under_fault"] += 1
                self.log.add("load", "raised", type(exc).__name__)
                return None
            # the generator only writes legal files and the pinned tree never refuses one: any raise that no non-maskable
            # fault explains is a violation, whatever its type and whichever lane the run is in
            cls = "SPURIOUS-FAILURE" if fired else "LOAD-RAISED"
            v = Violation(cls, f"load of a legal file raised {type(exc).__name__}: {exc} (faults fired: {sorted(fired)}; none of "
                          f"them non-maskable)", {"kind": "raised"}, idx)
            self.log.add("load", "viol", v.cls)
            return v
        try:
            res = c13_compare(f, seqs)
        except Exception as e:
            res = ("ROUTING", f"loaded sequences unreadable: {type(e).__name__}: {e}")
        self.judged += 1
        self.stats["reach_load/judged"] += 1
        if res is not None:
            cls, detail = res
            if hard:
                cls = "WRONG-DATA"
            v = Violation(cls, detail + f" (faults fired: {sorted(fired)})", {"kind": res[0].lower()}, idx)
            self.log.add("load", "viol", v.cls)
            return v
        if hard:
            self.stats["reach_load/returned_right_music_despite_read_fault"] += 1
        self.log.add("load", "ok", sorted(fired), len(seqs),
                     core.digest_of([observe.raw_snapshot(q.abs._messages) for q in seqs]))
        return None


ENDURANCE = {"quick": 4, "thorough": 64}
ENDURANCE_SIZES = {"quick": (45000, 60000), "thorough": (60000, 90000, 110000)}


def gen_sibling_file(rng, f):
    """Same file with ONE note moved (both its events, by the same number of ticks, staying inside its track and keeping the
    order of the track's last event): equal resolution, track count, message counts and track lengths, different deltas.
    Only a note whose (channel, pitch) occurs once in the file is moved, so that none of the generator's spacing rules can be
    broken. None if there is no such note."""
    count = {}
    for tr in f["tracks"]:
        for e in tr:
            if e["k"] == "on":
                count[(e["ch"], e["pitch"])] = count.get((e["ch"], e["pitch"]), 0) + 1
    cands = []
    for ti, tr in enumerate(f["tracks"]):
        last = max((e["tick"] for e in tr), default=0)
        for j, e in enumerate(tr):
            if e["k"] == "on" and not e.get("unison") and not e.get("noise") and count[(e["ch"], e["pitch"])] == 1:
                offs = [k for k in range(j + 1, len(tr)) if tr[k]["k"] == "off" and tr[k]["ch"] == e["ch"] and tr[k]["pitch"] == e["pitch"]]
                if offs and tr[offs[0]]["tick"] < last:
                    cands.append((ti, j, offs[0], last - tr[offs[0]]["tick"]))
    if not cands:
        return None
    ti, j, k, room = cands[rng.randrange(len(cands))]
    d = rng.randrange(1, room + 1) if rng.random() < 0.5 else min(room, rng.choice([1, 2, 3, f["tpb"] // 4 + 1]))
    f2 = json.loads(json.dumps(f))
    tr = f2["tracks"][ti]
    tr[j]["tick"] += d
    tr[k]["tick"] += d
    order = {"ts": 0, "ks": 1, "pc": 2, "other": 2, "off": 3, "on": 4}
    tr.sort(key=lambda e: (e["tick"], order[e["k"]]))
    return f2


def gen_regroup(rng, f):
    """Another grouping of the same file that never puts tracks of two different note owners into one group (the notes of one
    owner are generated free of overlaps per (channel, pitch); across owners they are not): every original group is kept,
    dropped (its tracks may stay on as meta-only tracks) or split into single tracks, a track outside every group may become a
    group of its own."""
    ntracks = len(f["tracks"])
    orig = f["groups"] if f["groups"] is not None else [[i] for i in range(ntracks)]
    groups = []
    for g in orig:
        r = rng.random()
        if r < 0.5:
            groups.append(list(g))
        elif r < 0.75:
            groups.extend([[t] for t in g])
    inside = {t for g in orig for t in g}
    for t in range(ntracks):
        if t not in inside and rng.random() < 0.4:
            groups.append([t])
    if not groups:
        groups = [list(rng.choice(orig))]
    rng.shuffle(groups)
    meta = sorted(rng.sample(range(ntracks), rng.randrange(0, ntracks + 1)))
    return {"groups": groups, "meta": meta, "target": rng.randrange(len(groups))}


def c13_run_one(seed, tier, index):
    rng = random.Random(seed)
    lane = "baseline" if rng.random() < 0.3 else "fault"
    # endurance runs are spread one per work chunk (chunk size 100) so that they run in parallel
    if index % 100 == 0 and index // 100 < ENDURANCE.get(tier, 0):
        f = gen_c13_endurance(rng, ENDURANCE_SIZES.get(tier, (45000,)))
        init = {"file": f}
        world = LoadWorld(init)
        world.stats["lane/endurance_runs"] += 1
        ev = {"op": "load", "plan": {"kind": "none", "buf": 8192} if rng.random() < 0.7 else
              {"kind": "short", "pattern": rng.randrange(1, 1 << 20), "buf": 8192}}
        viol = world.apply(ev, 0)
        return _c13_result(world, viol, {"engine": "simdisk/C13", "seed": seed, "lane": "endurance", "init": init, "events": [ev]})
    if rng.random() < (0.01 if tier == "quick" else 0.02):
        f = gen_c13_neartie(rng)
        lane = "neartie"
    else:
        f = gen_c13_file(rng, tier)
    init = {"file": f}
    if lane != "neartie" and rng.random() < 0.15:
        f2 = gen_sibling_file(rng, f)
        if f2 is not None:
            init["file2"] = f2
    world = LoadWorld(init)
    events = []
    viol = None
    for k in range(rng.choice([2, 3]) if "file2" in init else 1 if lane == "neartie" else rng.choice([1, 1, 2]) if lane == "baseline" else rng.choice([1, 2, 3])):
        ev = {"op": "load", "plan": {"kind": "none", "buf": 8192} if lane in ("baseline", "neartie") else gen_plan(rng, "r", world.size),
              "route": rng.choice(["path", "path", "path", "midi_file", "midi_file", "convert", "positional"])}
        if "file2" in init:
            ev["which"] = k % 2 if rng.random() < 0.8 else rng.randrange(2)
        if k > 0 and rng.random() < 0.6 and "file2" not in init:
            ev["regroup"] = gen_regroup(rng, f)
            ev["route"] = rng.choice(["midi_file", "midi_file", "convert", "path"])
        events.append(ev)
        viol = world.apply(ev, len(events) - 1)
        if viol is not None or world.foreign:
            break
    return _c13_result(world, viol, {"engine": "simdisk/C13", "seed": seed, "lane": lane, "init": init, "events": events})


def _c13_result(world, viol, trace):
    world.disk.cleanup()
    res = RunResult()
    res.trace = trace
    res.violation = viol
    res.foreign = world.foreign
    res.stats = world.stats
    lane = trace.get("lane", "replay")
    res.stats[f"lane/{lane}_runs"] += 1
    if viol is not None:
        res.stats[f"lane/{lane}_violations"] += 1
    res.events = world.log.n
    res.digest = world.log.digest()
    res.abstract = zlib.crc32(repr(world.abstract).encode()) | (len(world.abstract) << 32)
    res.nontrivial = world.judged > 0 and world.faults_fired > 0
    res.log = world.log
    return res


def c13_replay(trace, keep_log=False):
    world = LoadWorld(trace["init"], keep_log=keep_log)
    viol = None
    for i, ev in enumerate(trace["events"]):
        viol = world.apply(ev, i)
        if viol is not None or world.foreign:
            break
    return _c13_result(world, viol, trace)


def _c13_simplify(trace):
    f = trace["init"]["file"]
    tracks = f["tracks"]

    def with_file(nf):
        t = dict(trace)
        t["init"] = {"file": nf}
        return t
    # long tracks: cut the tail first (halves, quarters, ...); per-event candidates only once the track is short
    for ti, evs in enumerate(tracks):
        if len(evs) > 60:
            for frac in (2, 4, 8, 16, 64):
                keep = evs[: max(2, len(evs) // frac)]
                # do not leave a note open at the cut
                open_ = {}
                for e in keep:
                    if e["k"] == "on":
                        open_[(e["ch"], e["pitch"])] = e
                    elif e["k"] == "off":
                        open_.pop((e["ch"], e["pitch"]), None)
                keep = [e for e in keep if not (e["k"] == "on" and open_.get((e["ch"], e["pitch"])) is e)]
                yield with_file(dict(f, tracks=tracks[:ti] + [keep] + tracks[ti + 1:]))
    if sum(len(evs) for evs in tracks) > 1500:
        return
    # drop a note (on+off pair) or a single non-note event
    for ti, evs in enumerate(tracks):
        for j, e in enumerate(evs):
            if e["k"] == "on":
                # find its off
                for j2 in range(j + 1, len(evs)):
                    e2 = evs[j2]
                    if e2["k"] == "off" and e2["ch"] == e["ch"] and e2["pitch"] == e["pitch"]:
                        ne = evs[:j] + evs[j + 1:j2] + evs[j2 + 1:]
                        yield with_file(dict(f, tracks=tracks[:ti] + [ne] + tracks[ti + 1:]))
                        break
            elif e["k"] in ("ts", "ks", "pc", "other"):
                yield with_file(dict(f, tracks=tracks[:ti] + [evs[:j] + evs[j + 1:]] + tracks[ti + 1:]))
    if f["writer"] != "mido":
        yield with_file(dict(f, writer="mido"))
    evs = trace["events"]
    for j, ev in enumerate(evs):
        p = ev.get("plan")
        if p and p.get("kind", "none") != "none":
            t = dict(trace)
            t["events"] = evs[:j] + [dict(ev, plan={"kind": "none", "buf": 8192})] + evs[j + 1:]
            yield t
        if ev.get("regroup"):
            t = dict(trace)
            t["events"] = evs[:j] + [{k: v for k, v in ev.items() if k != "regroup"}] + evs[j + 1:]
            yield t


class C13Engine(_DiskEngine):
    ESSENTIAL = ["reach_load/judged"]
    name = "simdisk/C13"
    RULE = ("one run = one generated MIDI file (ticks-per-beat from 17 values incl. 7, 13, 25, 100, 1000; 1-5 tracks; notes on 16 "
            "channels; note-off as note_off or note_on velocity 0; major and minor key signatures; messages S-Coda ignores (tempo, text, "
            "controllers, pitch wheel) carrying delta times; music sometimes starting beyond 2**24 file ticks; written by mido or by a "
            "byte-level writer with running status) placed in the run's scratch directory and loaded 1-3 times by S-Coda with a random "
            "disjoint track grouping in any order, meta-track selection and meta target, each load with its own buffer size and fault "
            "plan; a later load may ask for another grouping of the same file (on the midi_file / convert routes: of the same parsed "
            "object). Two further lanes: 'endurance' (one 10^5-note track per work chunk at an odd resolution) and 'near-tie' (1-2 % of runs: "
            "resolutions up to 32767 with a large reduced denominator, note events 1/(2q) from a rounding tie, thousands of small-delta "
            "filler messages). distinct_nontrivial counts distinct abstract histories (crc of (planned fault, fired faults, returned?, "
            "tpb, writer) per load) among runs with >=1 judged load AND >=1 fired fault.")
    ASSUMPTIONS = [
        "notes are longer than 2 library ticks after scaling and same (channel, pitch) notes of one group are >= 2 library ticks apart "
        "(round() is half-to-even: positions 1 tick apart may collapse; zero-length notes are outside the statement)",
        "signature events sit >= 2 library ticks apart, never on an exact rounding tie, never two on one tick",
        "on an exact tie either neighbouring tick is accepted for notes ('nearest', 'error at most half a tick')",
        "only successful returns are judged under non-maskable read faults",
        "track groups are disjoint (a grouping is a partition of a subset of the tracks, possibly in non-ascending order); a track "
        "listed in two groups is outside the domain explored (the loader gives it to the first group only)",
    ]

    @staticmethod
    def timeout_for(index, tier):
        return 600 if (index % 100 == 0 and index // 100 < ENDURANCE.get(tier, 0)) else None

    @staticmethod
    def run_one(seed, tier, index):
        try:
            return c13_run_one(seed, tier, index)
        finally:
            _sweep()

    @staticmethod
    def replay(trace, keep_log=False):
        try:
            return c13_replay(trace, keep_log)
        finally:
            _sweep()

    @staticmethod
    def simplify(trace):
        return _c13_simplify(trace)

    @staticmethod
    def zero_cells(stats):
        want = ["fault/short_read", "fault/read_eintr", "fault/read_eio", "reach_load/raised_under_fault", "reach_load/judged",
                "reach_writer/mido", "reach_writer/raw"]
        return [w for w in want if stats.get(w, 0) == 0]


ENGINES = {"C12": C12Engine, "C13": C13Engine}
