"""Core of the deterministic simulator: seed derivation, repo import, sharded runner,
ddmin shrinker, replay, known-finding matcher, evidence writer, exit-code policy.

One integer decides everything: VERIF_SEED -> per-run seed -> one random.Random per run.
Nothing in here (or in the engines) reads a wall clock, os.urandom, hash() or set order
for a decision; the only clock read is for the wall budget / wall_s figure.
"""
from __future__ import annotations

import faulthandler
import hashlib
import json
import multiprocessing
import os
import random
import signal
import subprocess
import sys
import time
import traceback
from collections import Counter
from concurrent.futures import ProcessPoolExecutor, as_completed

VERIF_DIR = os.path.dirname(os.path.dirname(os.path.abspath(__file__)))
REPO_DIR = os.environ.get("VERIF_REPO", "/repo")
PYTHON = sys.executable

EXIT_OK, EXIT_VIOLATION, EXIT_HARNESS = 0, 1, 2


# --------------------------------------------------------------------------- repo import

_SCODA_READY = False


def import_scoda():
    """Import S-Coda from the working tree named by VERIF_REPO (default /repo)."""
    global _SCODA_READY
    if _SCODA_READY:
        return
    repo = os.path.realpath(REPO_DIR)
    if repo not in sys.path:
        sys.path.insert(0, repo)
    os.environ.setdefault("MPLBACKEND", "Agg")
    import logging
    import scoda.sequences.sequence as seqmod  # noqa
    import scoda.elements.bar  # noqa
    import scoda.elements.track  # noqa
    import scoda.elements.composition  # noqa
    import scoda.tokenisation.notelike_tokenisation  # noqa
    here = os.path.realpath(seqmod.__file__)
    if not here.startswith(repo + os.sep):
        raise HarnessError(f"scoda imported from {here}, expected under {repo}")
    # the scoda logging module resets the level to INFO at import; silence it afterwards
    lg = logging.getLogger("scoda")
    lg.setLevel(logging.CRITICAL + 10)
    for h in list(lg.handlers):
        lg.removeHandler(h)
    lg.addHandler(logging.NullHandler())
    lg.propagate = False
    _SCODA_READY = True


API_CLASSES = [("scoda.sequences.sequence", "Sequence"), ("scoda.sequences.absolute_sequence", "AbsoluteSequence"),
               ("scoda.sequences.relative_sequence", "RelativeSequence"), ("scoda.elements.message", "Message"),
               ("scoda.elements.bar", "Bar"), ("scoda.elements.track", "Track"), ("scoda.elements.composition", "Composition"),
               ("scoda.tokenisation.notelike_tokenisation", "MultiTrackLargeVocabularyNotelikeTokeniser"),
               ("scoda.midi.midi_file", "MidiFile")]


def api_surface():
    """Public callables and their parameter names of the classes the operation alphabets were written against."""
    import importlib
    import inspect
    out = {}
    for mod, cls in API_CLASSES:
        c = getattr(importlib.import_module(mod), cls)
        for name, member in sorted(vars(c).items()):
            if name.startswith("_") and name not in ("__init__", "__eq__"):
                continue
            fn = member.__func__ if isinstance(member, (staticmethod, classmethod)) else member
            if isinstance(member, property):
                out[f"{cls}.{name}"] = ["<property>"]
            elif callable(fn):
                try:
                    out[f"{cls}.{name}"] = list(inspect.signature(fn).parameters)
                except (TypeError, ValueError):
                    out[f"{cls}.{name}"] = ["?"]
    return out


def api_drift():
    """Differences between the library's public surface and the committed snapshot (informational: a new method or
    parameter is not explored until the alphabets in sim/ are extended)."""
    path = os.path.join(VERIF_DIR, "selftest", "api_snapshot.json")
    if not os.path.exists(path):
        return []
    try:
        snap = json.load(open(path))
        cur = api_surface()
    except Exception as e:  # never let an informational probe break a check
        return [f"api probe failed: {e!r}"]
    out = []
    for k in sorted(set(cur) - set(snap)):
        out.append(f"new: {k}({', '.join(cur[k])})")
    for k in sorted(set(snap) - set(cur)):
        out.append(f"gone: {k}")
    for k in sorted(set(cur) & set(snap)):
        if cur[k] != snap[k]:
            out.append(f"changed: {k}({', '.join(snap[k])}) -> ({', '.join(cur[k])})")
    return out


def repo_tree_id() -> str:
    try:
        head = subprocess.run(["git", "-C", REPO_DIR, "rev-parse", "--short", "HEAD"],
                              capture_output=True, text=True, timeout=20).stdout.strip()
        dirty = subprocess.run(["git", "-C", REPO_DIR, "status", "--porcelain", "--untracked-files=no"],
                               capture_output=True, text=True, timeout=20).stdout.strip()
        return head + ("+dirty" if dirty else "")
    except Exception:
        return "unknown"


class HarnessError(Exception):
    pass


class RunTimeout(BaseException):
    pass


# --------------------------------------------------------------------------- seeds / digests

def derive_seed(prop: str, tier: str, base_seed: int, index: int) -> int:
    h = hashlib.sha256(f"{prop}:{tier}:{base_seed}:{index}".encode()).digest()
    return int.from_bytes(h[:8], "big")


def jdump(obj) -> str:
    return json.dumps(obj, sort_keys=True, separators=(",", ":"), default=_jdefault)


def _jdefault(o):
    if isinstance(o, (set, frozenset)):
        return sorted(o)
    if isinstance(o, tuple):
        return list(o)
    if hasattr(o, "value"):
        return o.value
    return repr(o)


def digest_of(obj) -> str:
    return hashlib.sha256(jdump(obj).encode()).hexdigest()[:16]


class EventLog:
    """Per-run event log; the digest covers choices *and* observed behaviour."""

    __slots__ = ("h", "n", "keep", "items")

    def __init__(self, keep=False):
        self.h = hashlib.sha256()
        self.n = 0
        self.keep = keep
        self.items = []

    def add(self, *fields):
        s = jdump((self.n,) + fields)
        self.h.update(s.encode())
        self.h.update(b"\n")
        if self.keep:
            self.items.append(s)
        self.n += 1

    def digest(self):
        return self.h.hexdigest()[:16]


# --------------------------------------------------------------------------- results

class Violation:
    """A property violation found by an oracle."""

    def __init__(self, cls: str, detail: str, key: dict | None = None, event_index: int | None = None):
        self.cls = cls
        self.detail = detail
        self.key = key or {}
        self.event_index = event_index

    def to_json(self):
        return {"class": self.cls, "detail": self.detail, "key": self.key, "event_index": self.event_index}

    @staticmethod
    def from_json(d):
        return Violation(d["class"], d.get("detail", ""), d.get("key"), d.get("event_index"))


class RunResult:
    __slots__ = ("trace", "violation", "digest", "stats", "foreign", "abstract", "nontrivial", "events", "log")

    def __init__(self):
        self.trace = None
        self.violation = None     # Violation | None
        self.digest = ""
        self.stats = Counter()    # flat counters "group/key" -> n
        self.foreign = None       # "op:Exception" | None
        self.abstract = 0         # 64-bit hash of abstract schedule
        self.nontrivial = False
        self.events = 0
        self.log = None


# --------------------------------------------------------------------------- known findings

def load_known_findings():
    path = os.path.join(VERIF_DIR, "known_findings.json")
    if not os.path.exists(path):
        return {"known": [], "fixed": []}
    with open(path) as f:
        return json.load(f)


def match_known(prop: str, v: Violation, kf) -> dict | None:
    for entry in kf.get("known", []):
        if entry.get("property") != prop or entry.get("class") != v.cls:
            continue
        want = entry.get("key", {})
        if all(v.key.get(k) == val for k, val in want.items()):
            return entry
    return None


# --------------------------------------------------------------------------- worker side

_ENGINES = {}


def get_engine(prop: str):
    """Return the engine module object for a property id."""
    if prop in _ENGINES:
        return _ENGINES[prop]
    import_scoda()
    if prop == "C04":
        from sim import seqworld
        eng = seqworld.ENGINES[prop]
    elif prop in ("C11", "C16"):
        from sim import famworld
        eng = {"C11": famworld.C11Engine, "C16": famworld.C16Engine}[prop]
    elif prop == "C03":
        from sim import tokstream
        eng = tokstream.ENGINE
    elif prop in ("C12", "C13"):
        from sim import simdisk
        eng = simdisk.ENGINES[prop]
    else:
        raise HarnessError(f"no engine for {prop}")
    _ENGINES[prop] = eng
    return eng


def _alarm(signum, frame):
    raise RunTimeout()


RUN_TIMEOUT_S = int(os.environ.get("VERIF_RUN_TIMEOUT_S", "20"))


def guarded(fn, *a, timeout_s=None, **kw):
    """Run fn under a per-run wall alarm. A timeout is a harness error, never exit 0."""
    old = signal.signal(signal.SIGALRM, _alarm)
    signal.alarm(timeout_s or RUN_TIMEOUT_S)
    try:
        return fn(*a, **kw)
    finally:
        signal.alarm(0)
        signal.signal(signal.SIGALRM, old)


def worker_chunk(prop, tier, base_seed, lo, hi, want_samples, digests_only=False):
    """Execute runs lo..hi-1. Returns a picklable summary."""
    faulthandler.enable()
    t_chunk0 = time.time()
    eng = get_engine(prop)
    stats = Counter()
    foreign = Counter()
    viols = []
    abstracts = []
    digests = []
    samples = []
    harness = []
    events = 0
    n = 0
    for i in range(lo, hi):
        seed = derive_seed(prop, tier, base_seed, i)
        try:
            r = guarded(eng.run_one, seed, tier, i,
                        timeout_s=eng.timeout_for(i, tier) if hasattr(eng, "timeout_for") else None)
        except RunTimeout:
            harness.append({"index": i, "seed": seed, "error": f"run exceeded {RUN_TIMEOUT_S}s wall"})
            if len(harness) >= 2:
                break
            continue
        except Exception:
            harness.append({"index": i, "seed": seed, "error": traceback.format_exc(limit=12)})
            continue
        n += 1
        events += r.events
        stats.update(r.stats)
        if r.foreign:
            foreign[r.foreign] += 1
        if r.nontrivial:
            abstracts.append(r.abstract)
        digests.append(r.digest)
        if r.violation is not None and len(viols) < 8:
            viols.append({"index": i, "seed": seed, "violation": r.violation.to_json(), "trace": r.trace})
        elif r.violation is not None:
            stats["violations/overflow"] += 1
        if want_samples and len(samples) < want_samples and r.violation is None and not r.foreign:
            kind = eng.sample_kind(r)
            if kind and kind not in [s[0] for s in samples]:
                samples.append((kind, r.trace))
    out = {"n": n, "events": events, "stats": dict(stats), "foreign": dict(foreign), "violations": viols,
           "abstracts": abstracts, "samples": samples, "harness": harness,
           # which process executed this chunk and when it began: the order of the chunks of one worker is its history
           "worker": (os.getpid(), t_chunk0, lo, hi)}
    if digests_only:
        out["digests"] = digests
    return out


# --------------------------------------------------------------------------- replay / shrink

def replay_trace(prop: str, trace: dict) -> RunResult:
    eng = get_engine(prop)
    return guarded(eng.replay, trace, timeout_s=600 if trace.get("lane") == "endurance" else None)


def same_violation(a: Violation | None, b: Violation | None) -> bool:
    if a is None or b is None:
        return False
    return a.cls == b.cls and a.key == b.key


SHRINK_WALL_S = float(os.environ.get("VERIF_SHRINK_WALL_S", "90"))


def shrink(prop: str, trace: dict, target: Violation, max_replays=400):
    """ddmin over events + engine-specific simplifications; keeps class and key. Bounded by a number of replays and by
    wall time (a replay of an endurance trace takes seconds)."""
    eng = get_engine(prop)
    budget = [max_replays]
    t_end = time.time() + SHRINK_WALL_S

    def still_fails(cand):
        if budget[0] <= 0 or time.time() > t_end:
            budget[0] = 0
            return False
        budget[0] -= 1
        try:
            r = guarded(eng.replay, cand, timeout_s=600 if cand.get("lane") == "endurance" else None)
        except (RunTimeout, Exception):
            return False
        return same_violation(r.violation, target)

    cur = trace
    # 1. cut everything after the failing event
    r0 = guarded(eng.replay, cur, timeout_s=600 if cur.get("lane") == "endurance" else None)
    if r0.violation is not None and r0.violation.event_index is not None:
        cand = dict(cur)
        cand["events"] = cur["events"][: r0.violation.event_index + 1]
        if still_fails(cand):
            cur = cand
    # 2. ddmin over events
    events = list(cur["events"])
    n = 2
    while len(events) >= 2 and budget[0] > 0:
        chunk = max(1, len(events) // n)
        reduced = False
        for start in range(0, len(events), chunk):
            cand_events = events[:start] + events[start + chunk:]
            cand = dict(cur)
            cand["events"] = cand_events
            if still_fails(cand):
                events = cand_events
                cur = cand
                n = max(n - 1, 2)
                reduced = True
                break
        if not reduced:
            if chunk == 1:
                break
            n = min(len(events), n * 2)
    # 3. engine-specific simplification to fixpoint (bounded)
    progress = True
    while progress and budget[0] > 0:
        progress = False
        for cand in eng.simplify(cur):
            if budget[0] <= 0:
                break
            if still_fails(cand):
                cur = cand
                progress = True
                break
    return cur, max_replays - budget[0]


def replay_in_fresh_process(prop: str, path: str) -> tuple[int, str]:
    env = dict(os.environ)
    env["PYTHONHASHSEED"] = "0"
    p = subprocess.run([PYTHON, os.path.join(VERIF_DIR, "check.py"), prop, "--replay", path, "--quiet"],
                       capture_output=True, text=True, env=env, timeout=300)
    return p.returncode, p.stdout + p.stderr


def run_history(prop: str, tier: str, base_seed: int, indices):
    """Execute the runs with the given indices one after the other in THIS process (no fork) and return the RunResult of the last
    one: the replay of a violation that needs the state an earlier run of the same process left behind in the system under
    test (a class-level buffer, a module-level cache)."""
    import_scoda()
    eng = get_engine(prop)
    r = None
    for i in indices:
        r = guarded(eng.run_one, derive_seed(prop, tier, base_seed, i), tier, i,
                    timeout_s=eng.timeout_for(i, tier) if hasattr(eng, "timeout_for") else None)
    return r


def history_in_fresh_process(prop: str, path: str) -> tuple[int, str]:
    env = dict(os.environ)
    env["PYTHONHASHSEED"] = "0"
    p = subprocess.run([PYTHON, os.path.join(VERIF_DIR, "check.py"), prop, "--replay", path, "--quiet"],
                       capture_output=True, text=True, env=env, timeout=900)
    return p.returncode, p.stdout + p.stderr


def worker_history(worker_log, idx):
    """The run indices the worker process that executed run `idx` had executed before it, in order, ending with idx."""
    mine = [w for w in (worker_log or []) if w and w[2] <= idx < w[3]]
    if not mine:
        return None
    pid = mine[0][0]
    chunks = sorted((w for w in worker_log if w and w[0] == pid and w[1] <= mine[0][1]), key=lambda w: w[1])
    out = []
    for _, _, lo, hi in chunks:
        out.extend(range(lo, min(hi, idx + 1) if lo <= idx < hi else hi))
    return out


def history_replay_for(prop, tier, base_seed, cand, chunk=100, worker_log=None):
    """A violating run that does not reproduce from its own trace: look for the shortest suffix of the history of its worker
    process (the runs that process executed before it, over all its work chunks) after which it does, in a fresh process.
    Returns (path, length) or None."""
    idx = cand["index"]
    full = worker_history(worker_log, idx) or list(range(idx - idx % chunk, idx + 1))
    viol = Violation.from_json(cand["violation"])
    os.makedirs(os.path.join(VERIF_DIR, "replays"), exist_ok=True)
    path = os.path.join(VERIF_DIR, "replays", f"{prop}-{viol.cls}-history-{cand['seed']:016x}.json")
    tried = []
    t_end = time.time() + 600
    n = 2
    while True:
        n = min(n, len(full))
        if n in tried or time.time() > t_end:
            break
        tried.append(n)
        doc = {"kind": "history", "engine": get_engine(prop).name if hasattr(get_engine(prop), "name") else prop,
               "property": prop, "tier": tier, "verif_seed": base_seed, "run_indices": full[-n:],
               "expected": viol.to_json(), "scoda_tree": repo_tree_id(),
               "note": "the last run violates the property only after the earlier ones have run in the same process: the system "
                       "under test carries state from one call to later, unrelated calls"}
        with open(path, "w") as f:
            json.dump(doc, f, indent=1, default=_jdefault)
        rc, _ = history_in_fresh_process(prop, path)
        if rc == EXIT_VIOLATION:
            return path, n
        if n >= len(full):
            break
        n = n * 2 - 1
    try:
        os.remove(path)
    except OSError:
        pass
    return None


# --------------------------------------------------------------------------- batch driver

def run_batch(prop: str, tier: str, base_seed: int, total_runs: int, wall_budget_s: float,
              workers: int, chunk: int = 100):
    import_scoda()
    eng = get_engine(prop)  # import in parent so forked workers inherit modules
    t0 = time.time()
    agg = {"n": 0, "events": 0, "stats": Counter(), "foreign": Counter(), "violations": [], "abstracts": set(),
           "samples": {}, "harness": [], "submitted": 0, "cut_short": False}
    ctx = multiprocessing.get_context("fork")
    tasks = []
    lo = 0
    while lo < total_runs:
        hi = min(total_runs, lo + chunk)
        tasks.append((lo, hi))
        lo = hi
    hard_deadline = t0 + wall_budget_s * 3 + 120
    with ProcessPoolExecutor(max_workers=workers, mp_context=ctx) as ex:
        pending = {}
        it = iter(tasks)
        stop_submitting = False

        def submit_next():
            nonlocal stop_submitting
            if stop_submitting:
                return False
            try:
                lo_, hi_ = next(it)
            except StopIteration:
                return False
            fut = ex.submit(worker_chunk, prop, tier, base_seed, lo_, hi_, 4 if lo_ < chunk * workers * 2 else 0)
            pending[fut] = (lo_, hi_)
            agg["submitted"] += hi_ - lo_
            return True

        for _ in range(workers * 2):
            if not submit_next():
                break
        while pending:
            done = None
            try:
                for fut in as_completed(list(pending), timeout=max(1.0, hard_deadline - time.time())):
                    done = fut
                    break
            except Exception:
                agg["harness"].append({"error": "batch exceeded hard wall deadline; workers hung"})
                for f in pending:
                    f.cancel()
                for p in list(getattr(ex, "_processes", {}).values()):
                    try:
                        p.kill()
                    except Exception:
                        pass
                break
            lo_, hi_ = pending.pop(done)
            try:
                res = done.result()
            except Exception as e:  # worker died
                agg["harness"].append({"error": f"worker died on runs {lo_}..{hi_}: {e!r}"})
                break
            agg["n"] += res["n"]
            agg["events"] += res["events"]
            agg["stats"].update(res["stats"])
            agg["foreign"].update(res["foreign"])
            agg["violations"].extend(res["violations"])
            agg.setdefault("worker_log", []).append(res.get("worker"))
            agg["abstracts"].update(res["abstracts"])
            agg["harness"].extend(res["harness"])
            for kind, tr in res["samples"]:
                agg["samples"].setdefault(kind, tr)
            if time.time() - t0 > wall_budget_s or len(agg["violations"]) >= 40 or len(agg["harness"]) >= 6:
                if not stop_submitting and agg["submitted"] < total_runs:
                    agg["cut_short"] = True
                stop_submitting = True
            submit_next()
    agg["wall_s"] = time.time() - t0
    return agg


def classify_and_report(prop: str, tier: str, base_seed: int, agg: dict, quiet=False):
    """Turn raw violations into VIOLATION / KNOWN-FINDING lines. Returns (exit_code, info)."""
    kf = load_known_findings()
    out_lines = []
    known_hits = {}
    new = {}
    for v in sorted(agg["violations"], key=lambda x: x["index"]):
        viol = Violation.from_json(v["violation"])
        entry = match_known(prop, viol, kf)
        if entry is not None:
            known_hits.setdefault(entry["id"], {"entry": entry, "count": 0})
            known_hits[entry["id"]]["count"] += 1
            continue
        k = (viol.cls, jdump(viol.key))
        if k not in new:
            new[k] = {"first": v, "count": 0, "cands": []}
        new[k]["count"] += 1
        if len(new[k]["cands"]) < 12:
            new[k]["cands"].append(v)
    for kid, hit in known_hits.items():
        out_lines.append(f"KNOWN-FINDING: property={prop} {hit['entry']['what']} (matched {hit['count']} runs)")
    exit_code = EXIT_OK
    replays = []
    os.makedirs(os.path.join(VERIF_DIR, "replays"), exist_ok=True)
    for (cls, _), item in list(new.items())[:6]:
        # same-process reproduction first. A run whose violation does not reproduce from its own trace was not a function of its
        # seed alone: the system under test carried state over from an EARLIER run of the same worker process (a class-level
        # buffer, a module-level cache). Such a run is no replay file; another run of the same class that does reproduce in
        # isolation is looked for, and only a class with no reproducible member at all is a harness error.
        v = viol = trace = None
        not_reproduced = []
        for cand in item["cands"]:
            cviol = Violation.from_json(cand["violation"])
            try:
                r = replay_trace(prop, cand["trace"])
            except BaseException as e:
                agg["harness"].append({"error": f"replay of run {cand['index']} crashed: {e!r}"})
                break
            if same_violation(r.violation, cviol) and not os.environ.get("VERIF_SELFTEST_FORCE_HISTORY"):
                v, viol, trace = cand, cviol, cand["trace"]
                break
            not_reproduced.append(cand["index"])
        if not_reproduced:
            agg["stats"]["probe/violating_runs_that_depend_on_an_earlier_run_of_the_process"] += len(not_reproduced)
        if v is None:
            if not_reproduced:
                # no member of the class stands on its own: replay the history of the worker process instead
                hist = None
                for cand in item["cands"][:3]:
                    try:
                        hist = history_replay_for(prop, tier, base_seed, cand, worker_log=agg.get("worker_log"))
                    except BaseException as e:
                        agg["harness"].append({"error": f"history replay of run {cand['index']} crashed: {e!r}"})
                        hist = None
                    if hist is not None:
                        cviol = Violation.from_json(cand["violation"])
                        out_lines.append(f"VIOLATION property={prop} replay={hist[0]}")
                        out_lines.append(f"  class={cls} count_in_batch={item['count']} needs_the_{hist[1] - 1}_runs_before_it_in_the_same_process "
                                         f"detail={cviol.detail[:300]}")
                        replays.append(hist[0])
                        exit_code = EXIT_VIOLATION
                        break
                if hist is None:
                    agg["harness"].append({"error": f"violation {cls} of runs {not_reproduced[:6]} did not reproduce on replay, "
                                                    f"neither alone nor after the runs that preceded it in its work chunk"})
            continue
        try:
            small, used = shrink(prop, trace, viol)
        except BaseException as e:
            small, used = trace, 0
            agg["harness"].append({"error": f"shrink crashed: {e!r}"})
        small = dict(small)
        small["expected"] = viol.to_json()
        small["property"] = prop
        small["tier"] = tier
        small["verif_seed"] = base_seed
        small["run_index"] = v["index"]
        small["run_seed"] = v["seed"]
        small["scoda_tree"] = repo_tree_id()
        small["shrink_replays"] = used
        small["original_events"] = len(trace.get("events", []))
        name = f"{prop}-{cls}-{v['seed']:016x}.json"
        path = os.path.join(VERIF_DIR, "replays", name)
        with open(path, "w") as f:
            json.dump(small, f, indent=1, default=_jdefault)
        rc, txt = replay_in_fresh_process(prop, path)
        if rc != EXIT_VIOLATION:
            # The shrinker replays candidates in THIS process; if the system under test keeps state between calls, a candidate
            # may have "failed" only because of what earlier candidates left behind. Fall back to the run as it was generated.
            full = dict(trace)
            full.update({k_: small[k_] for k_ in ("expected", "property", "tier", "verif_seed", "run_index", "run_seed", "scoda_tree")})
            full["shrink_replays"] = 0
            full["original_events"] = len(trace.get("events", []))
            full["not_minimised"] = "the minimised trace reproduced only in the process that had executed the shrinker's other candidates"
            with open(path, "w") as f:
                json.dump(full, f, indent=1, default=_jdefault)
            rc, txt = replay_in_fresh_process(prop, path)
            agg["stats"]["probe/minimised_trace_depended_on_process_state"] += 1
        if rc != EXIT_VIOLATION:
            # not even the run as generated stands on its own in a fresh process: replay the worker's history instead
            try:
                os.remove(path)
            except OSError:
                pass
            hist = None
            try:
                hist = history_replay_for(prop, tier, base_seed, v, worker_log=agg.get("worker_log"))
            except BaseException as e:
                agg["harness"].append({"error": f"history replay of run {v['index']} crashed: {e!r}"})
            if hist is None:
                agg["harness"].append({"error": f"replay of run {v['index']} did not reproduce in a fresh process (rc={rc}), neither "
                                                f"alone nor after the history of its worker process: {txt[-300:]}"})
                continue
            out_lines.append(f"VIOLATION property={prop} replay={hist[0]}")
            out_lines.append(f"  class={cls} count_in_batch={item['count']} needs_the_{hist[1] - 1}_runs_before_it_in_the_same_process "
                             f"detail={viol.detail[:300]}")
            replays.append(hist[0])
            exit_code = EXIT_VIOLATION
            continue
        out_lines.append(f"VIOLATION property={prop} replay={path}")
        out_lines.append(f"  class={cls} count_in_batch={item['count']} detail={viol.detail[:300]}")
        replays.append(path)
        exit_code = EXIT_VIOLATION
    if agg["harness"] and exit_code == EXIT_OK:
        exit_code = EXIT_HARNESS
    for ln in out_lines:
        print(ln)
    if agg["harness"]:
        for h in agg["harness"][:5]:
            print("HARNESS-ERROR:", json.dumps(h)[:1500])
    sys.stdout.flush()
    return exit_code, {"known": {k: v["count"] for k, v in known_hits.items()},
                       "new_classes": [k[0] for k in new], "replays": replays}


def write_evidence(prop: str, tier: str, base_seed: int, agg: dict, info: dict, eng, exit_code: int):
    n = max(agg["n"], 0)
    wall = agg["wall_s"]
    stats = agg["stats"]
    grouped = {}
    for k, v in sorted(stats.items()):
        g, _, rest = k.partition("/")
        grouped.setdefault(g, {})[rest] = v
    samples = []
    for kind in sorted(agg["samples"]):
        samples.append({"kind": kind, "trace": agg["samples"][kind]})
    cov = {
        "evaluations": n,
        "distinct_nontrivial": len(agg["abstracts"]),
        "rule": eng.RULE,
        "samples": samples[:3] if samples else [{"note": "no clean sample collected"}],
        "events_total": agg["events"],
        "runs_per_hour": int(n / wall * 3600) if wall > 0 else 0,
        "seeds": {"verif_seed": base_seed, "derivation": "sha256(property:tier:VERIF_SEED:index)[:8]",
                  "first_index": 0, "runs_submitted": agg["submitted"], "cut_short_by_wall_budget": agg["cut_short"]},
        "simulated_time": "n/a - S-Coda reads no clock; logical events are reported instead (events_total)",
        "faults_fired": grouped.get("fault", {}),
        "faults_configured_not_fired": grouped.get("fault_not_fired", {}),
        "lanes": grouped.get("lane", {}),
        "reach": {g: grouped[g] for g in grouped if g.startswith("reach")},
        "zero_cells": eng.zero_cells(stats) if hasattr(eng, "zero_cells") else [],
        "ops": grouped.get("op", {}),
        "foreign_failures": dict(agg["foreign"]),
        "probe_lane": grouped.get("probe", {}),
        "other_counters": {g: grouped[g] for g in grouped
                           if g not in ("fault", "fault_not_fired", "lane", "op", "probe") and not g.startswith("reach")},
        "real_components": eng.REAL,
        "stub_components": eng.STUB,
        "known_findings_matched": info.get("known", {}),
        "new_violation_classes": info.get("new_classes", []),
        "replays": info.get("replays", []),
        "harness_errors": agg["harness"][:5],
        "scoda_tree": repo_tree_id(),
        "api_drift_vs_snapshot": api_drift(),
        "workers": agg.get("workers"),
    }
    ev = {
        "property_id": prop,
        "tier": tier,
        "seed": base_seed,
        "level": "exploration",
        "coverage": cov,
        "assumptions": eng.ASSUMPTIONS,
        "wall_s": round(wall, 2),
        "violations": len(info.get("replays", [])),
        "exit_code": exit_code,
    }
    # evidence/<ID>.json describes runs against /repo itself; runs pointed at a scratch copy (sensitivity / seeded
    # self-tests via VERIF_REPO) must not overwrite it
    if os.path.realpath(REPO_DIR) == "/repo":
        ev_dir = os.path.join(VERIF_DIR, "evidence")
    else:
        ev_dir = os.path.join("/tmp", "verif_scratch_evidence")
    os.makedirs(ev_dir, exist_ok=True)
    path = os.path.join(ev_dir, f"{prop}.json")
    tmp = path + ".tmp"
    with open(tmp, "w") as f:
        json.dump(ev, f, indent=1, default=_jdefault)
    os.replace(tmp, path)
    return path
