"""famworld: several *families* of S-Coda objects (Sequence / Bar / Track / Composition), each driven by its own
task; the seeded scheduler decides who moves next. Used for

  C16 - independence: after every step by family F, the stored views of every sequence of every other family G
        are bit-for-bit unchanged (and a copy equals its original at derivation);
  C11 - integer ticks: after every event, every time value in every stored and every regenerated view of every
        live sequence is of type int; tick-bearing token fields and state-dict values are integers.
"""
from __future__ import annotations

import random
import re
import zlib

from scoda.elements.bar import Bar
from scoda.elements.composition import Composition
from scoda.elements.track import Track
from scoda.misc.music_theory import Key
from scoda.sequences.sequence import Sequence
from scoda.tokenisation.notelike_tokenisation import MultiTrackLargeVocabularyNotelikeTokeniser

from sim import core, music, observe, seqops
from sim.core import RunResult, Violation, EventLog
from sim.observe import (freshness, clone_seq, canon_views, Unreadable, first_diff, stored_snapshot, raw_abs, raw_rel)
from sim.seqops import OPS
from sim.seqworld import _call, _V, _Boom, _simplify_seq_trace, _msg_fields

MAX_FAMILIES = 6
PPQN = 24

# in-place mutators make sharing observable; weights biased toward them
INPLACE = ["set_channel", "transpose", "scale", "quantise", "quantise_note_lengths", "cutoff", "direct_edit", "view_call"]
OTHER_MUT = ["normalise", "pad", "add_absolute_message", "add_relative_message", "merge", "concatenate",
             "overwrite_absolute_messages", "overwrite_relative_messages", "quantise_and_normalise"]
READS = ["read_abs", "read_rel", "refresh", "get_sequence_duration_relation", "is_empty", "get_message_times_of_type",
         "get_message_pairings", "to_midi_track", "get_sequence_duration"]


def bar_len(n, d):
    return PPQN * 4 * n // d


class Family:
    __slots__ = ("kind", "root", "route", "parent", "it", "snap", "index", "pristine", "held")

    def __init__(self, kind, root, route, parent):
        self.kind = kind
        self.root = root
        self.route = route
        self.parent = parent
        self.it = None
        self.snap = None
        self.index = -1
        self.pristine = True
        self.held = []

    def bars(self):
        if self.kind == "bar":
            return [self.root]
        if self.kind == "track":
            return list(self.root.bars)
        if self.kind == "comp":
            return [b for t in self.root.tracks for b in t.bars]
        return []

    def seqs(self):
        if self.kind == "seq":
            return [self.root]
        return [b.sequence for b in self.bars()]

    def attrs(self, for_equality=False):
        """`program` is a value the Track constructor derives from the bars' PROGRAM_CHANGE messages; it is left out of the
        copy-equality (a copy recomputes it from the current content) but kept in the independence snapshot."""
        def ba(b):
            return (b.time_signature_numerator, b.time_signature_denominator,
                    b.key_signature.value if isinstance(b.key_signature, Key) else b.key_signature)
        if self.kind == "seq":
            return ()
        if self.kind == "bar":
            return ba(self.root)
        if self.kind == "track":
            return (self.root.name, None if for_equality else self.root.program, tuple(ba(b) for b in self.root.bars))
        return tuple((t.name, None if for_equality else t.program, tuple(ba(b) for b in t.bars)) for t in self.root.tracks)

    def snapshot(self):
        return (self.attrs(), tuple(_freeze(stored_snapshot(s)) for s in self.seqs()))

    def canon(self):
        """Musical value (the equality notion of C17: notes with pitch, onset, duration, channel, velocity; signatures with
        their ticks - the channel carried by a signature / program / control message is not part of it)."""
        out = []
        for s in self.seqs():
            ae, ad, re_, rd = canon_views(s)
            out.append((_musical(ae), ad, _musical(re_), rd))
        return (self.attrs(for_equality=True), tuple(out))


def _musical(events):
    return sorted(((e[0], e[1], e[2] if e[1] in ("note_on", "note_off") else None) + tuple(e[3:]) for e in events),
                  key=observe._ek)


def _freeze(snap):
    a, r, la, lr = snap
    return (a, r, tuple(la) if la is not None else None, tuple(lr) if lr is not None else None)


# ------------------------------------------------------------------------------ content for bars

SIGS = [(4, 4), (3, 4), (2, 4), (6, 8), (2, 2), (5, 4), (3, 8), (8, 8), (12, 8), (7, 8), (2, 8), (4, 8)]
# bars of at most a quarter note (capacity 3 .. 24 ticks): every "bar length versus a note value" comparison in the
# library flips here; none has a capacity that is not a whole number of ticks
SHORT_SIGS = [(1, 8), (1, 8), (1, 16), (3, 16), (2, 16), (1, 4), (1, 32), (3, 32), (5, 32), (7, 32)]


def _pick_sig(rng, pool=None):
    if rng.random() < 0.12:
        return rng.choice(SHORT_SIGS)
    return rng.choice(pool or SIGS)


def gen_bar_spec(rng, n, d, fill="random", channel=0, pitches=None, grid=None):
    """Well-formed, tokeniser-friendly content that fits in one bar of n/d. `fill`: 'full' (lasts exactly the bar),
    'short' (shorter than the capacity -> Bar pads), 'empty', 'random'."""
    L = bar_len(n, d)
    if fill == "random":
        fill = rng.choice(["full", "short", "short", "empty", "open"])
    spec = dict(music.EMPTY_SPEC)
    spec = {k: (list(v) if isinstance(v, list) else v) for k, v in spec.items()}
    if fill == "empty":
        return spec
    grid = grid or rng.choice([6, 6, 12, 4, 3])
    if pitches is None:
        r = rng.random()
        # one bar in five lies at the edge of the pitch range: a transposition then wraps by an octave, which is the branch
        # that re-normalises and re-quantises note lengths
        lo, hi = (40, 90) if r < 0.8 else ((21, 27) if r < 0.9 else (102, 109))
        pitches = sorted({rng.randrange(lo, hi) for _ in range(rng.randrange(1, 4))})
    last_end = {}
    limit = L if fill != "short" else max(grid, (L // 2 // grid) * grid)
    humanised = rng.random() < 0.3
    for _ in range(rng.randrange(1, 6)):
        p = rng.choice(pitches)
        dur = rng.choice([6, 12, 24, 18, 8, 4, 36, 9, 16])
        if humanised and rng.random() < 0.6:
            # almost a note value: a later re-quantisation of lengths corrects it, upward as often as downward
            dur = max(1, dur + rng.choice([-2, -1, 1, 2]))
        lo = -(-last_end.get(p, 0) // grid)
        hi = (limit - dur) // grid
        if hi < lo:
            continue
        on = grid * rng.randrange(lo, hi + 1)
        spec["notes"].append([channel, p, on, dur, rng.randrange(1, 128)])
        last_end[p] = on + dur
    if humanised and fill in ("full", "open") and rng.random() < 0.6:
        # ... and one such note ends on (or a tick before) the bar line
        p = rng.choice(pitches)
        dur = max(1, rng.choice([6, 12, 24, 18]) + rng.choice([-2, -1, 1, 2]))
        on = L - dur - rng.choice([0, 0, 1])
        if on >= last_end.get(p, 0):
            spec["notes"].append([channel, p, on, dur, rng.randrange(1, 128)])
            last_end[p] = on + dur
    spec["notes"].sort(key=lambda x: (x[2], x[1]))
    end = max([x[2] + x[3] for x in spec["notes"]], default=0)
    if fill == "full" and end < L:
        spec["tail"] = L - end
    elif fill == "open" and end < L and rng.random() < 0.5:
        spec["tail"] = rng.choice([t for t in (6, 12, 24) if end + t <= L] or [0])
    return spec


def gen_piece_spec(rng, bars_sigs, channel=0, fills=None):
    """A multi-bar single-track sequence spec: bar k has signature bars_sigs[k]; signature events on bar lines."""
    spec = {k: (list(v) if isinstance(v, list) else v) for k, v in music.EMPTY_SPEC.items()}
    t0 = 0
    prev = None
    pitches = sorted({rng.randrange(40, 90) for _ in range(rng.randrange(1, 4))})
    for k, (n, d) in enumerate(bars_sigs):
        if (n, d) != prev and ((n, d) != (4, 4) or prev is not None or rng.random() < 0.5):
            spec["tsigs"].append([t0, n, d])
        prev = (n, d)
        b = gen_bar_spec(rng, n, d, fill=(fills[k] if fills else rng.choice(["full", "short", "empty", "open"])),
                         channel=channel, pitches=pitches)
        for ch, p, on, dur, vel in b["notes"]:
            spec["notes"].append([ch, p, on + t0, dur, vel])
        t0 += bar_len(n, d)
    return spec, t0


# ------------------------------------------------------------------------------ the world

class FamWorld:
    def __init__(self, prop, init, keep_log=False):
        self.prop = prop
        self.fams = []
        self.log = EventLog(keep_log)
        self.stats = core.Counter()
        self.abstract = []
        self.mutations = 0
        self.perturbations = 0
        self.foreign = None
        self.ev_index = -1
        self.tok_state = {}
        for ini in init:
            fam = self._build_initial(ini)
            self._add(fam)
        if prop == "C11":
            self._int_monitor("init", None)

    # -------------------------------------------------------------- construction

    def _add(self, fam):
        fam.index = len(self.fams)
        self.fams.append(fam)
        fam.snap = fam.snapshot()
        # references a caller got hold of when the object was made (`b = track.bars[0]`) and may use at any later time -
        # also after the object has been copied: a lazily unsharing copy must not hand these over to the other party
        fam.held = list(fam.seqs())
        return fam

    def _build_initial(self, ini):
        kind = ini["kind"]
        if kind == "seq":
            return Family("seq", music.build_sequence(ini["spec"], ini["mode"]), "initial", None)
        if kind == "bar":
            b = ini["bars"][0]
            return Family("bar", _mk_bar(b), "initial", None)
        if kind == "track":
            return Family("track", Track([_mk_bar(b) for b in ini["bars"]], ini.get("name")), "initial", None)
        if kind == "comp":
            return Family("comp", Composition([Track([_mk_bar(b) for b in tr], None) for tr in ini["tracks"]]),
                          "initial", None)
        raise ValueError(kind)

    # -------------------------------------------------------------- oracles

    def _others_unchanged(self, actor, op):
        for g in self.fams:
            if g is actor:
                continue
            now = g.snapshot()
            if now != g.snap:
                rel = _relation(actor, g)
                what = _snap_diff(g.snap, now)
                raise _V(Violation("ALIASED", f"{op} on family #{actor.index} ({actor.kind}, {actor.route}) changed the stored "
                                   f"views of family #{g.index} ({g.kind}, {g.route}): {what}"[:700],
                                   {"route": rel, "op": op}))

    def _int_monitor(self, op, fam):
        fams = self.fams
        for f in fams:
            for si, s in enumerate(f.seqs()):
                bad = []
                a, r = raw_abs(s), raw_rel(s)
                if a is not None:
                    bad += observe.non_int_times(a, "abs")
                if r is not None:
                    bad += observe.non_int_times(r, "rel")
                if not bad:
                    c = clone_seq(s)
                    try:
                        bad += observe.non_int_times(c.abs._messages, "regenerated-abs")
                        bad += observe.non_int_times(c.rel._messages, "regenerated-rel")
                    except Exception:
                        pass  # readability is C04's business
                if bad:
                    raise _V(Violation("NON-INT", f"after {op}: family #{f.index} ({f.kind}, {f.route}) sequence {si}: "
                                       + "; ".join(bad[:4]), {"op": op, "route": f.route}))

    # -------------------------------------------------------------- event application

    def apply(self, ev, idx):
        self.ev_index = idx
        try:
            out = self._apply(ev)
        except _V as v:
            v.v.event_index = idx
            self.log.add(ev["op"], "viol", v.v.cls)
            return v.v
        except seqops_Foreign as f:
            self.foreign = f.tag
            self.log.add(ev["op"], "foreign", f.tag)
            return None
        self.log.add(ev["op"], ev.get("name"), out, core.digest_of([f.snapshot() for f in self.fams]))
        return None

    def _fam(self, raw):
        return self.fams[raw % len(self.fams)]

    def _apply(self, ev):
        op = ev["op"]
        if op == "derive":
            return self._derive(ev)
        fam = self._fam(ev.get("fam", 0))
        phase = "iter" if fam.it is not None else "none"
        self.abstract.append(zlib.crc32(f"{op}|{ev.get('name')}|{fam.kind}|{fam.route}|{phase}".encode()))
        if op == "act":
            return self._act(fam, ev)
        if op == "bar_transpose":
            return self._bar_transpose(fam, ev)
        if op == "read":
            return self._read(fam, ev)
        if op.startswith("iter_"):
            return self._iter(fam, ev)
        if op == "tokenise":
            return self._tokenise(fam, ev)
        if op == "to_sequence":
            return self._to_sequence(fam, ev)
        if op == "make_bar":
            return self._make_bar(fam, ev)
        return "skip:unknown"

    def _siblings_before(self, fam, target_seq):
        if self.prop != "C16":
            return None
        return [(s, _freeze(stored_snapshot(s))) for s in fam.seqs() if s is not target_seq]

    def _siblings_unchanged(self, fam, before, opname):
        """The sequences of one family (bars of a track / composition, e.g. the bars returned by bar splitting) are values
        too: an operation applied to one of them through the public API must not change another."""
        if before is None:
            return
        for i, (s, snap) in enumerate(before):
            now = _freeze(stored_snapshot(s))
            if now != snap:
                raise _V(Violation("ALIASED", f"{opname} on one sequence of family #{fam.index} ({fam.kind}, {fam.route}) changed "
                                   f"a sibling sequence of the same family: "
                                   f"{_snap_diff(((), (snap,)), ((), (now,)))}"[:700], {"route": "sibling:" + fam.route, "op": opname}))

    def _after_step(self, actor, opname):
        if self.prop == "C16":
            self._others_unchanged(actor, opname)
        actor.snap = actor.snapshot()
        if self.prop == "C11":
            self._int_monitor(opname, actor)

    # ---- derivations

    def _derive(self, ev):
        src = self._fam(ev.get("src", 0))
        route = ev["route"]
        self.abstract.append(zlib.crc32(f"derive|{route}|{src.kind}|{src.route}".encode()))
        if src.it is not None and route not in ("copy", "split"):
            return "skip:L2"
        if src.it is not None and src.it["dirty"]:
            return "skip:L2-derivation-in-dirty-window"
        if len(self.fams) >= MAX_FAMILIES:
            return "skip:full"
        new = []
        tag = route
        if route == "copy":
            if src.it is not None and src.it["dirty"]:
                return "skip:L2-copy-in-dirty-window"
            tag = f"copy:{src.kind}"
            pre_ok = self.prop == "C16" and self._copy_equality_applicable(src)
            c, e = _call(src.root.copy)
            if e is not None:
                self._after_step(src, tag)
                if src.kind == "seq" and self.prop == "C16":
                    raise _V(Violation("COPY-RAISED", f"Sequence.copy() raised {type(e).__name__}: {e}",
                                       {"route": tag, "op": "derive"}))
                return f"skip:copy-raised:{type(e).__name__}"
            f = Family(src.kind, c, tag, src.index)
            new.append(f)
            if pre_ok and self.prop == "C16":
                try:
                    a, b = src.canon(), f.canon()
                except Unreadable as u:
                    raise seqops_Foreign(f"copy-canon:{u.where}")
                if a != b:
                    raise _V(Violation("NOT-EQUAL", f"{src.kind}.copy() does not equal its original: {first_diff(_flat(a), _flat(b))}"[:700],
                                       {"route": tag, "op": "derive"}))
                self.stats[f"reach_copy_equal/{src.kind}"] += 1
            else:
                self.stats[f"reach_copy_equal_skipped/{src.kind}"] += 1
        elif route == "split":
            seqs = src.seqs()
            if not seqs:
                return "skip:no-seq"
            s = seqs[ev.get("target", 0) % len(seqs)]
            pieces, e = _call(s.split, list(ev["caps"]))
            if e is not None:
                raise seqops_Foreign(f"split:{type(e).__name__}")
            for p in pieces[: MAX_FAMILIES - len(self.fams)]:
                new.append(Family("seq", p, "split", src.index))
        elif route in ("bars_q", "bars_nq"):
            seqs = src.seqs()
            if src.kind != "seq":
                return "skip:kind"
            extra = [music.build_sequence(x["spec"], x["mode"]) for x in ev.get("extra", [])]
            for x in extra:
                # the other inputs of the call are parties too: nothing derived from `src` may share with them
                if len(self.fams) + 1 < MAX_FAMILIES:
                    self._add(Family("seq", x, "co-input", None))
            lst = list(extra)
            pos = ev.get("pos", 0) % (len(lst) + 1)
            lst.insert(pos, seqs[0])
            tracks, e = _call(Sequence.sequences_split_bars, lst, ev.get("meta", 0) % len(lst), route == "bars_q")
            for f_ in self.fams:
                if f_.route == "co-input":
                    f_.snap = f_.snapshot()     # being read may regenerate a view (flags), not the value
            if e is not None:
                self._after_step(src, route)
                return f"skip:raised:{type(e).__name__}"
            own = tracks[pos]
            as_track = ev.get("as_track", False)
            if as_track:
                t, e = _call(Track, own, None)
                if e is None:
                    new.append(Family("track", t, route, src.index))
            else:
                picks = ev.get("pick", [0, 1])
                chosen = []
                for k in picks:
                    if own and own[k % len(own)] not in chosen:
                        chosen.append(own[k % len(own)])
                for b in chosen[: MAX_FAMILIES - len(self.fams)]:
                    new.append(Family("bar", b, route, src.index))
        elif route == "toseq_copy":
            # Bar.to_sequence / Track.to_sequence share by design; the *copy* of their result must be independent again
            if src.kind == "seq":
                return "skip:kind"
            if src.kind == "track":
                sq, e = _call(src.root.to_sequence)
            else:
                sq, e = _call(Bar.to_sequence, src.bars())
            if e is not None:
                raise seqops_Foreign(f"to_sequence:{type(e).__name__}")
            c, e = _call(sq.copy)
            if e is not None:
                raise _V(Violation("COPY-RAISED", f"copy() of a to_sequence result raised {type(e).__name__}: {e}",
                                   {"route": route, "op": "derive"}))
            new.append(Family("seq", c, route, src.index))
        elif route == "from_sequences":
            if src.kind != "seq":
                return "skip:kind"
            extra = [music.build_sequence(x["spec"], x["mode"]) for x in ev.get("extra", [])]
            for x in extra:
                if len(self.fams) + 1 < MAX_FAMILIES:
                    self._add(Family("seq", x, "co-input", None))
            lst = list(extra)
            pos = ev.get("pos", 0) % (len(lst) + 1)
            lst.insert(pos, src.root)
            c, e = _call(Composition.from_sequences, lst, ev.get("meta", 0) % len(lst))
            for f_ in self.fams:
                if f_.route == "co-input":
                    f_.snap = f_.snapshot()
            if e is not None:
                self._after_step(src, route)
                return f"skip:raised:{type(e).__name__}"
            new.append(Family("comp", c, route, src.index))
        else:
            return "skip:route"
        self.stats[f"op/derive:{tag}"] += 1
        for f in new:
            self._add(f)
        # the derivation is a step of the source: nothing else may have changed
        self._after_step(src, f"derive:{tag}")
        if self.prop == "C11":
            self._int_monitor(f"derive:{tag}", None)
        shared = self._identity_probe(new, src)
        if shared:
            self.stats[f"probe/identity_shared_after_{tag}"] += 1
        return f"ok:{len(new)}"

    def _copy_equality_applicable(self, src):
        """'A copy equals its original' is judged for every Sequence; for Bar/Track/Composition only while the
        original still satisfies its own construction invariants (normalised, exact bar length): Bar.copy() re-runs the
        constructor, which normalises and pads; that is C10's business, not C16's."""
        if src.kind == "seq":
            return True
        for b in src.bars():
            s = b.sequence
            try:
                before = canon_views(s)
                c = clone_seq(s)
                c.normalise()
                after = canon_views(c)
            except Exception:
                return False
            if before != after:
                return False
            if before[1] != bar_len(b.time_signature_numerator, b.time_signature_denominator):
                return False
            ts = [e for e in before[0] if e[1] == "time_signature"]
            if len(ts) != 1 or ts[0][0] != 0:
                return False
        return True

    def _identity_probe(self, new, src):
        """Harness-side: are Message objects shared between families? Only used to bias the schedule / as a reach probe."""
        ids = {}
        for f in self.fams:
            for s in f.seqs():
                for lst in (getattr(getattr(s, "_abs", None), "_messages", None),
                            getattr(getattr(s, "_rel", None), "_messages", None)):
                    for m in lst or []:
                        ids.setdefault(id(m), set()).add(f.index)
        return any(len(v) > 1 for v in ids.values())

    # ---- steps of a family

    def _target(self, fam, ev):
        if ev.get("held") and fam.held:
            self.stats["reach_ref/operation_through_a_reference_held_since_creation"] += 1
            return fam.held[ev.get("target", 0) % len(fam.held)]
        seqs = fam.seqs()
        if not seqs:
            return None
        return seqs[ev.get("target", 0) % len(seqs)]

    def _act(self, fam, ev):
        if fam.it is not None:
            return "skip:L2"
        s = self._target(fam, ev)
        if s is None:
            return "skip:no-seq"
        name = ev["name"]
        args = ev.get("args", {})
        pre_fn = seqops.PRECOND.get(name)
        if pre_fn is not None and not pre_fn(s, args):
            return "skip:precondition"
        sib = self._siblings_before(fam, s)
        # a read-only argument may be the other party itself (e.g. copy.scale(0.5, meta_sequence=original), as the
        # library's own tests do): the operation is applied to this family and must leave the argument's value alone
        ref = ev.get("ref")
        ref_fam = ref_seq = ref_before = None
        if ref is not None and name in ("scale", "equals", "merge") and len(self.fams) > 1:
            ref_fam = self.fams[ref["fam"] % len(self.fams)]
            rs = ref_fam.seqs()
            if ref_fam is fam or not rs or ref_fam.it is not None:
                ref_fam = None
            else:
                ref_seq = rs[ref.get("target", 0) % len(rs)]
                try:
                    ref_before = canon_views(ref_seq)
                except Unreadable:
                    ref_fam = None
        if ref_fam is not None and name == "scale" and not seqops.pre_scale(s, args, ref_seq):
            return "skip:precondition"
        if ref_fam is not None:
            if name == "scale":
                _, e = _call(s.scale, args["factor"], ref_seq, args.get("q", False))
            elif name == "merge":
                # merge adopts the argument's message objects for a moment, but the normalisation that follows rebuilds
                # the receiver from copies: afterwards the two parties must be independent again
                _, e = _call(s.merge, [ref_seq])
            else:
                _, e = _call(s.equals, ref_seq)
            self.stats[f"reach_ref/{name}_with_other_family_as_argument"] += 1
            try:
                ref_after = canon_views(ref_seq)
            except Unreadable as u:
                ref_after = ("unreadable", str(u))
            if self.prop == "C16" and ref_after != ref_before:
                raise _V(Violation("ALIASED", f"{name} on family #{fam.index} ({fam.kind}, {fam.route}) with a sequence of family "
                                   f"#{ref_fam.index} ({ref_fam.kind}, {ref_fam.route}) as read-only argument changed that sequence: "
                                   f"{first_diff(list(ref_before), list(ref_after))}"[:700],
                                   {"route": _relation(fam, ref_fam), "op": name + "(other as argument)"}))
            ref_fam.snap = ref_fam.snapshot()   # being read may regenerate a view of the argument (flags), not its value
        else:
            _, e = _call(OPS[name][2], s, args)
        self.stats[f"op/{name}"] += 1
        self.stats[f"reach_kind_x_op/{fam.kind}|{name}"] += 1
        if e is not None:
            # the acting family may be half-mutated; the others must still be untouched
            if self.prop == "C16":
                self._others_unchanged(fam, name)
            raise seqops_Foreign(f"{name}:{type(e).__name__}")
        self.mutations += 1
        fam.pristine = False
        self._siblings_unchanged(fam, sib, name)
        self._after_step(fam, name)
        return "ok"

    def _bar_transpose(self, fam, ev):
        if fam.it is not None:
            return "skip:L2"
        bars = fam.bars()
        if not bars:
            return "skip:no-bar"
        b = bars[ev.get("target", 0) % len(bars)]
        sib = self._siblings_before(fam, b.sequence)
        attrs_before = [(x, (x.time_signature_numerator, x.time_signature_denominator, x.key_signature)) for x in bars if x is not b]
        _, e = _call(b.transpose, ev["by"])
        self.stats["op/Bar.transpose"] += 1
        if e is not None:
            if self.prop == "C16":
                self._others_unchanged(fam, "Bar.transpose")
            raise seqops_Foreign(f"Bar.transpose:{type(e).__name__}")
        self.mutations += 1
        fam.pristine = False
        self._siblings_unchanged(fam, sib, "Bar.transpose")
        if self.prop == "C16":
            for x, a in attrs_before:
                if (x.time_signature_numerator, x.time_signature_denominator, x.key_signature) != a:
                    raise _V(Violation("ALIASED", f"Bar.transpose on one bar of family #{fam.index} ({fam.kind}, {fam.route}) changed "
                                       f"the attributes of a sibling bar: {a} -> "
                                       f"{(x.time_signature_numerator, x.time_signature_denominator, x.key_signature)}",
                                       {"route": "sibling:" + fam.route, "op": "Bar.transpose"}))
        self._after_step(fam, "Bar.transpose")
        return "ok"

    def _read(self, fam, ev):
        s = self._target(fam, ev)
        if s is None:
            return "skip:no-seq"
        name = ev["name"]
        if fam.it is not None and name not in seqops.ITER_SAFE_READS:
            return "skip:L2"
        if name in seqops.NEEDS_NONEMPTY_ABS and seqops._abs_count(s) == 0:
            return "skip:empty"
        judge = self.prop == "C16" and (fam.it is None or not fam.it["dirty"])
        before = None
        if judge:
            try:
                before = observe.canon_value(s)
            except Unreadable:
                judge = False
        rv, e = _call(OPS[name][2], s, ev.get("args", {}))
        if e is not None:
            raise seqops_Foreign(f"{name}:{type(e).__name__}")
        self.perturbations += 1
        self.stats[f"fault/{name}"] += 1
        if self.prop == "C11" and name in ("get_message_pairings", "get_message_times_of_type", "get_sequence_duration"):
            bad = _non_int_ticks(rv, name)
            if bad:
                raise _V(Violation("NON-INT", f"{name} on family #{fam.index} ({fam.kind}, {fam.route}) returned non-integer ticks: "
                                   f"{bad[:4]}", {"op": name, "route": fam.route}))
        if judge:
            self._value_still(fam, s, before, name)
        self._after_step(fam, name)
        return "ok"

    def _value_still(self, fam, s, before, opname):
        """A read of a copy / piece must show the value it was derived with (or last given by its own operations), through
        both views: a view that is materialised late from something the other party has meanwhile changed is aliasing too."""
        try:
            ae, ad, re_, rd = canon_views(s)
        except Unreadable as u:
            raise _V(Violation("ALIASED", f"{opname} on family #{fam.index} ({fam.kind}, {fam.route}): sequence unreadable: {u}",
                               {"route": fam.route, "op": opname, "kind": "latent"}))
        if (ae, ad) != (re_, rd) or (ae, ad) != before:
            d = first_diff(list(before), [ae, ad]) or first_diff([ae, ad], [re_, rd])
            raise _V(Violation("ALIASED", f"{opname} on family #{fam.index} ({fam.kind}, {fam.route}) shows a value that differs from "
                               f"the one the family held before the read (its two views now: abs {len(ae)} events / rel {len(re_)} events): {d}"[:700],
                               {"route": fam.route, "op": opname, "kind": "latent"}))

    def _iter(self, fam, ev):
        op = ev["op"]
        if op in ("iter_abs", "iter_rel"):
            if fam.it is not None:
                return "skip:L2"
            s = self._target(fam, ev)
            if s is None:
                return "skip:no-seq"
            view = op[5:]
            fam.it = {"seq": s, "view": view, "gen": s.messages_abs() if view == "abs" else s.messages_rel(),
                      "cur": None, "yields": 0, "dirty": False}
            self.stats[f"op/{op}"] += 1
            self._after_step(fam, op)
            return "ok"
        it = fam.it
        if it is None:
            return "skip:no-iterator"
        tag = f"iter_{it['view']}:{op[5:]}"
        if op == "iter_advance":
            m, e = _call(next, it["gen"])
            if isinstance(e, StopIteration):
                fam.it = None
            elif e is not None:
                fam.it = None
                raise seqops_Foreign(f"{tag}:{type(e).__name__}")
            else:
                it["cur"] = m
                it["yields"] += 1
                it["dirty"] = False
            self._after_step(fam, tag)
            self.stats["reach_iter/advance_with_other_families_live"] += 1 if len(self.fams) > 1 else 0
            return "ok"
        if op == "iter_edit":
            if it["cur"] is None:
                return "skip:nothing-yielded"
            s = it["seq"]
            prev_t = next_t = None
            if it["view"] == "abs":
                lst = getattr(getattr(s, "_abs", None), "_messages", None) or []
                i = it["yields"] - 1
                if 0 <= i < len(lst) and lst[i] is it["cur"]:
                    prev_t = lst[i - 1].time if i > 0 else 0
                    next_t = lst[i + 1].time if i + 1 < len(lst) else None
                else:
                    prev_t = next_t = it["cur"].time
            r = seqops.resolve_edit(it["cur"], it["view"], ev.get("field", 0), ev.get("value", 0), prev_t, next_t)
            if r is None:
                return "skip:no-editable-field"
            sib = self._siblings_before(fam, s)
            setattr(it["cur"], r[0], r[1])
            it["dirty"] = True
            self.mutations += 1
            fam.pristine = False
            self.stats[f"op/{tag}"] += 1
            self._siblings_unchanged(fam, sib, tag)
            self._after_step(fam, tag)
            return "ok"
        if op in ("iter_close", "iter_throw", "iter_exhaust"):
            if op == "iter_close":
                _call(it["gen"].close)
            elif op == "iter_throw":
                _call(it["gen"].throw, _Boom())
            else:
                for _ in range(100000):
                    _, e = _call(next, it["gen"])
                    if e is not None:
                        break
            fam.it = None
            self._after_step(fam, tag)
            return "ok"
        return "skip:unknown"

    # ---- C11-only steps (sharing by design: never judged by C16)

    def _make_bar(self, fam, ev):
        """Bar(sequence, n, d): the bar owns the sequence it is given -> the family becomes a bar family."""
        if fam.kind != "seq" or fam.it is not None:
            return "skip:kind"
        n, d = ev["sig"]
        key = Key(ev["key"]) if ev.get("key") else None
        b, e = _call(Bar, fam.root, n, d, key)
        self.stats["op/Bar()"] += 1
        if e is not None:
            self._after_step(fam, "Bar()")
            return f"skip:raised:{type(e).__name__}"
        fam.kind = "bar"
        fam.root = b
        fam.route = fam.route + "+Bar()"
        self.mutations += 1
        self._after_step(fam, "Bar()")
        return "ok"

    def _to_sequence(self, fam, ev):
        if fam.it is not None or len(self.fams) >= MAX_FAMILIES:
            return "skip"
        if fam.kind == "seq":
            return "skip:kind"
        if fam.kind == "comp":
            seqs, e = _call(fam.root.to_sequences)
        elif fam.kind == "track":
            s, e = _call(fam.root.to_sequence)
            seqs = [s]
        else:
            s, e = _call(Bar.to_sequence, fam.bars())
            seqs = [s]
        self.stats[f"op/to_sequence:{fam.kind}"] += 1
        if e is not None:
            raise seqops_Foreign(f"to_sequence:{type(e).__name__}")
        for s in seqs[: MAX_FAMILIES - len(self.fams)]:
            self._add(Family("seq", s, f"to_sequence:{fam.kind}", fam.index))
        self._after_step(fam, f"to_sequence:{fam.kind}")
        if self.prop == "C11":
            self._int_monitor(f"to_sequence:{fam.kind}", None)
        return "ok"

    def _tokenise(self, fam, ev):
        if fam.it is not None:
            return "skip:L2"
        cfg = ev["cfg"]
        # tracks x bars matrix of sequences
        if fam.kind == "comp":
            rows = [[b.sequence for b in t.bars] for t in fam.root.tracks]
        elif fam.kind == "track":
            rows = [[b.sequence for b in fam.root.bars]]
        elif fam.kind == "bar":
            rows = [[fam.root.sequence]]
        else:
            rows = [[fam.root]]
        if not rows or not rows[0]:
            return "skip:empty"
        nb = min(len(r) for r in rows)
        tok = MultiTrackLargeVocabularyNotelikeTokeniser(num_tracks=len(rows), flag_running_values=cfg[0],
                                                         flag_fuse_track=cfg[1], flag_fuse_value=cfg[2],
                                                         flag_fuse_velocity=cfg[3])
        self.stats["op/tokenise"] += 1
        tokens = []
        state = {}
        how = ev.get("how", "bars")
        try:
            if how == "whole" and fam.kind != "seq":
                seqs = []
                for r in rows:
                    s = Sequence()
                    s.concatenate(r[:nb])
                    seqs.append(s)
                tokens = tok.tokenise(seqs, state_dict=state)
            else:
                cuts = ev.get("cuts", [])
                groups = _groups(nb, cuts)
                for lo, hi in groups:
                    chunk = []
                    for r in rows:
                        if hi - lo == 1:
                            chunk.append(r[lo])
                        else:
                            s = Sequence()
                            s.concatenate(r[lo:hi])
                            chunk.append(s)
                    tokens.extend(tok.tokenise(chunk, state_dict=state))
        except core.RunTimeout:
            raise
        except Exception as e:
            # tokenisation refusing an input is C01/C02's business
            self.stats[f"tokenise_raised/{type(e).__name__}"] += 1
            self._after_step(fam, "tokenise")
            return f"skip:raised:{type(e).__name__}"
        bad = [t for t in tokens if _token_has_float(t)]
        if bad:
            raise _V(Violation("NON-INT", f"tokenise emitted non-integer tick fields: {bad[:4]}",
                               {"op": "tokenise", "route": fam.route}))
        import numbers
        # only *numeric* entries are ticks / counters; flags (bool), None, strings or containers are not judged
        badstate = {k: v for k, v in state.items()
                    if isinstance(v, numbers.Number) and not isinstance(v, bool) and not observe.is_integer_value(v)}
        if badstate:
            raise _V(Violation("NON-INT", f"state dictionary holds non-integer values: {badstate}",
                               {"op": "tokenise", "route": fam.route}))
        self.stats["reach_tok/tokens_checked"] += len(tokens)
        fam.pristine = False
        self._after_step(fam, "tokenise")
        if ev.get("detok") and len(self.fams) < MAX_FAMILIES:
            edit = ev.get("tok_edit") or {}
            if edit:
                # a stream as a model would write it, not as tokenise does: bars that a `bar` token closes before they are
                # full (some rests missing) and an explicit default signature in front - both legal for detokenise, which
                # skips ahead to the bar line
                tokens = list(tokens)
                rests = [i for i, t in enumerate(tokens) if t.startswith("rst_")]
                for k in sorted({rests[x % len(rests)] for x in edit.get("drop_rests", [])} if rests else (), reverse=True):
                    del tokens[k]
                    self.stats["reach_tok/rest_token_dropped_before_detokenise"] += 1
                if edit.get("tsg_front") and not any(t.startswith("tsg_") for t in tokens):
                    tokens.insert(0, "tsg_08_08")
                    self.stats["reach_tok/default_signature_token_put_in_front"] += 1
            seqs, e = _call(tok.detokenise, tokens)
            if e is None:
                for s in seqs[: MAX_FAMILIES - len(self.fams)]:
                    self._add(Family("seq", s, "detokenise", fam.index))
                self.stats["op/detokenise"] += 1
                self._int_monitor("detokenise", None)
        return "ok"

    def finish(self):
        for f in self.fams:
            if f.it is not None:
                v = self.apply({"op": "iter_close", "fam": f.index}, self.ev_index + 1)
                if v is not None:
                    return v
        if self.prop == "C16" and not self.foreign:
            # final audit: read both views of every sequence of every family through the real accessors; what they show
            # must be the value the family was left with (catches views that are materialised lazily from another party)
            for f in self.fams:
                for s in f.seqs():
                    try:
                        before = observe.canon_value(s)
                    except Unreadable:
                        continue
                    _, e1 = _call(lambda: s.abs)
                    _, e2 = _call(lambda: s.rel)
                    if e1 is not None or e2 is not None:
                        continue   # readability is C04's business
                    try:
                        self._value_still(f, s, before, "final-audit")
                    except _V as v:
                        v.v.event_index = self.ev_index + 1
                        self.log.add("final-audit", "viol", v.v.cls)
                        return v.v
            self.stats["reach_audit/final_audits"] += 1
        return None


def _non_int_ticks(rv, name):
    """Tick values in what a getter hands to the caller (appliers return plain tuples: index 2 of a message tuple is its time)."""
    bad = []
    if name == "get_sequence_duration":
        if rv is not None and not observe.is_integer_value(rv):
            bad.append(rv)
        return bad
    if name == "get_message_times_of_type":
        for t, m in rv:
            for x in (t, m[2]):
                if x is not None and not observe.is_integer_value(x):
                    bad.append(x)
        return bad
    for ch, pairings in rv:
        for p in pairings:
            for m in p:
                if m[2] is not None and not observe.is_integer_value(m[2]):
                    bad.append(m[2])
    return bad


class seqops_Foreign(Exception):
    def __init__(self, tag):
        super().__init__(tag)
        self.tag = tag


def _token_has_float(tok):
    for part in tok.split("-"):
        bits = part.split("_")
        if bits[0] in ("rst", "val"):
            for b in bits[1:]:
                if not re.fullmatch(r"\d+", b):
                    return True
    return False


def _groups(nb, cuts):
    cs = sorted({c % nb for c in cuts if c % nb != 0}) if nb > 0 else []
    edges = [0] + cs + [nb]
    return [(edges[i], edges[i + 1]) for i in range(len(edges) - 1) if edges[i] < edges[i + 1]]


def _mk_bar(b):
    return Bar(music.build_sequence(b["spec"], b["mode"]), b["sig"][0], b["sig"][1],
               Key(b["key"]) if b.get("key") else None)


def _relation(actor, g):
    if actor.parent == g.index:
        return actor.route
    if g.parent == actor.index:
        return g.route
    return "indirect:" + g.route


def _flat(c):
    return [c[0]] + [list(x) for x in c[1]]


def _snap_diff(old, new):
    if old[0] != new[0]:
        return f"attributes {old[0]} -> {new[0]}"
    for i, (a, b) in enumerate(zip(old[1], new[1])):
        if a != b:
            if a[:2] != b[:2]:
                return f"sequence {i}: staleness flags {a[:2]} -> {b[:2]}"
            for v, name in ((2, "abs"), (3, "rel")):
                if a[v] != b[v]:
                    return f"sequence {i} stored {name} view: {first_diff(a[v], b[v])}"
    return f"number of sequences {len(old[1])} -> {len(new[1])}"


# =====================================================================================
# generation
# =====================================================================================

def _gen_seq_init(rng, channels=(0,), prop="C16"):
    if rng.random() < 0.08:
        # a note-less sequence (signatures, program / control changes, a rest), its events off every grid: the argument for
        # which "nothing to merge / nothing to normalise" shortcuts are written
        spec = {k: (list(v) if isinstance(v, list) else v) for k, v in music.EMPTY_SPEC.items()}
        for _ in range(rng.randrange(1, 4)):
            t = rng.choice([0, rng.randrange(1, 120), rng.randrange(1, 120)])
            k = rng.random()
            if k < 0.4:
                spec["progs"].append([t, rng.choice(channels), rng.randrange(128)])
            elif k < 0.7:
                spec["ccs"].append([t, rng.choice(channels), rng.randrange(120), rng.randrange(128)])
            elif k < 0.85 and not spec["tsigs"]:
                spec["tsigs"].append([t, *rng.choice(SIGS[:6])])
            elif not spec["keys"]:
                spec["keys"].append([t, rng.choice(music.KEYS)])
        spec["tail"] = rng.choice([0, 5, 50, rng.randrange(1, 100)])
        return {"kind": "seq", "spec": spec, "mode": rng.choice(["abs", "rel", "both"])}
    if rng.random() < 0.5:
        spec = music.gen_music(rng, max_notes=rng.choice([3, 6, 10]), channels=channels, allow_empty=False)
        if rng.random() < 0.1:
            spec["tsigs"] = [[0, *rng.choice(SHORT_SIGS)]]
    else:
        nb = rng.randrange(1, 4)
        sigs = [_pick_sig(rng, SIGS[:6])] * nb if rng.random() < 0.7 else [_pick_sig(rng, SIGS[:6]) for _ in range(nb)]
        spec, _ = gen_piece_spec(rng, sigs)
        if rng.random() < 0.3:
            spec["keys"].append([0, rng.choice(music.KEYS)])
    if prop == "C11" and rng.random() < 0.2:
        # integer-tick input that is not well-formed (C11 quantifies over all integer-tick sequences): note-ons that are
        # never closed - pairing-based operations impute their end - and note-offs that close nothing
        end = max(1, music.spec_duration(spec))
        used = {(x[0], x[1]) for x in spec["notes"]}
        for _ in range(rng.randrange(1, 3)):
            ch, p_ = rng.choice(channels), rng.randrange(30, 100)
            if (ch, p_) in used:
                continue
            used.add((ch, p_))
            tick = rng.choice([rng.randrange(0, end + 1), rng.randrange(max(0, end - 24), end + 1), 6 * rng.randrange(0, end // 6 + 1)])
            if rng.random() < 0.75:
                spec.setdefault("lone", []).append([ch, p_, tick, rng.randrange(1, 128)])
            else:
                spec.setdefault("stray", []).append([ch, p_, tick])
    return {"kind": "seq", "spec": spec, "mode": rng.choice(["abs", "rel", "both"])}


def _gen_bar_ini(rng, fill="random", channel=0):
    n, d = _pick_sig(rng)
    return {"spec": gen_bar_spec(rng, n, d, fill=fill, channel=channel), "mode": rng.choice(["abs", "rel", "both"]),
            "sig": [n, d], "key": rng.choice([None, None] + music.KEYS)}


def _gen_family_init(rng, prop):
    r = rng.random()
    if r < (0.55 if prop == "C16" else 0.35):
        return _gen_seq_init(rng, (0,) if rng.random() < 0.8 else (0, 1), prop)
    if r < 0.75:
        return {"kind": "bar", "bars": [_gen_bar_ini(rng)]}
    if r < 0.9:
        return {"kind": "track", "bars": [_gen_bar_ini(rng) for _ in range(rng.randrange(1, 4))], "name": rng.choice([None, "lead"])}
    nt = rng.randrange(1, 3)
    nb = rng.randrange(1, 3)
    return {"kind": "comp", "tracks": [[_gen_bar_ini(rng, channel=t) for _ in range(nb)] for t in range(nt)]}


def _gen_act(rng, world, fi, fam, inplace_bias):
    seqs = fam.seqs()
    target = rng.randrange(0, 8)
    s = seqs[target % len(seqs)] if seqs else None
    if s is None:
        return {"op": "read", "fam": fi, "target": 0, "name": "read_abs", "args": {}}
    if fam.kind != "seq" and rng.random() < 0.15:
        return {"op": "bar_transpose", "fam": fi, "target": target, "by": rng.choice([1, 2, -3, 5, 7, -7, 4, 12, -12, 11, -11, 24, -24])}
    if rng.random() < inplace_bias:
        name = rng.choice(INPLACE)
    else:
        name = rng.choice(OTHER_MUT)
    if world.prop == "C11" and rng.random() < 0.08:
        # an unclosed note (lone note-on): later pairing-based operations impute its note-off
        d = seqops._duration(s)
        return {"op": "act", "fam": fi, "target": target, "name": "add_absolute_message",
                "args": {"msg": {"t": "note_on", "ch": 0, "time": rng.randrange(0, d + 1), "note": rng.randrange(40, 90),
                                 "velocity": rng.randrange(1, 128)}}}
    args = OPS[name][1](rng, s)
    ref = None
    if name == "scale":
        args = {"factor": rng.choice([1, 2, 2, 3, 4]), "q": rng.random() < 0.3}
        if world.prop == "C16" and rng.random() < 0.3:
            args = {"factor": 0.5, "q": rng.random() < 0.5, "meta": rng.choice([None, "self"])}
        if world.prop == "C16" and len(world.fams) > 1 and rng.random() < 0.5:
            ref = {"fam": rng.randrange(len(world.fams)), "target": rng.randrange(8)}
    if name == "merge" and world.prop == "C16" and len(world.fams) > 1 and rng.random() < 0.5:
        ref = {"fam": rng.randrange(len(world.fams)), "target": rng.randrange(8)}
    if name == "transpose":
        args = {"by": rng.choice([1, 2, 3, 5, 7, -1, -2, -5, -7, 11, 4, -4])}
    ev = {"op": "act", "fam": fi, "target": target, "name": name, "args": args}
    if ref is not None:
        ev["ref"] = ref
    if world.prop == "C16" and fam.kind != "seq" and rng.random() < 0.25:
        ev["held"] = True
    return ev


def _gen_derive(rng, world, fi, fam, prop):
    routes = ["copy"]
    if fam.kind == "seq":
        routes += ["split", "split", "bars_q", "bars_nq", "bars_nq", "from_sequences"]
    elif prop == "C16" and rng.random() < 0.3:
        routes += ["split", "toseq_copy"]
    route = rng.choice(routes)
    ev = {"op": "derive", "route": route, "src": fi}
    if route == "split":
        seqs = fam.seqs()
        ev["target"] = rng.randrange(0, 8)
        s = seqs[ev["target"] % len(seqs)]
        ev["caps"] = seqops.g_split(rng, s)["caps"]
    elif route in ("bars_q", "bars_nq", "from_sequences"):
        ev["extra"] = [seqops._arg_seq(rng)] if rng.random() < 0.25 else []
        ev["pos"] = rng.randrange(0, 2)
        ev["meta"] = ev["pos"] if rng.random() < 0.8 else rng.randrange(0, 2)
        ev["as_track"] = rng.random() < 0.35
        ev["pick"] = [rng.randrange(0, 6), rng.randrange(0, 6)]
    return ev


def _gen_event(rng, world, knobs, prop):
    nf = len(world.fams)
    fi = rng.randrange(nf)
    fam = world.fams[fi]
    if fam.it is not None:
        r = rng.random()
        if r < 0.06 and nf < MAX_FAMILIES and prop == "C16":
            # copying / splitting the sequence that is being iterated (a read of it) is legal between two steps
            ev = {"op": "derive", "route": rng.choice(["copy", "split"]), "src": fi, "target": rng.randrange(8)}
            if ev["route"] == "split":
                seqs = fam.seqs()
                ev["caps"] = seqops.g_split(rng, seqs[ev["target"] % len(seqs)])["caps"]
            return ev
        if r < 0.35:
            return {"op": "iter_advance", "fam": fi}
        if r < 0.7:
            return {"op": "iter_edit", "fam": fi, "field": rng.randrange(1 << 16), "value": rng.randrange(1 << 16)}
        if r < 0.8:
            return {"op": "read", "fam": fi, "target": rng.randrange(8), "name": rng.choice(["read_abs", "read_rel", "is_empty"]), "args": {}}
        if r < 0.93:
            return {"op": "iter_close", "fam": fi}
        return {"op": rng.choice(["iter_exhaust", "iter_throw"]), "fam": fi}
    r = rng.random()
    want_derive = knobs["p_derive"] if nf > 1 else 0.85
    if r < want_derive and nf < MAX_FAMILIES:
        return _gen_derive(rng, world, fi, fam, prop)
    r = rng.random()
    if r < knobs["p_iter"]:
        return {"op": rng.choice(["iter_abs", "iter_rel"]), "fam": fi, "target": rng.randrange(8)}
    if r < knobs["p_iter"] + knobs["p_read"]:
        name = rng.choice(READS)
        seqs = fam.seqs()
        s = seqs[0] if seqs else None
        return {"op": "read", "fam": fi, "target": rng.randrange(8), "name": name,
                "args": OPS[name][1](rng, s) if s is not None else {}}
    if prop == "C11":
        r2 = rng.random()
        if r2 < knobs["p_tok"]:
            return {"op": "tokenise", "fam": fi, "cfg": [rng.random() < 0.6, rng.random() < 0.6, rng.random() < 0.6, rng.random() < 0.6],
                    "how": rng.choice(["bars", "bars", "whole"]), "cuts": [rng.randrange(0, 8) for _ in range(rng.randrange(0, 3))],
                    "detok": rng.random() < 0.5,
                    "tok_edit": ({"drop_rests": [rng.randrange(64) for _ in range(rng.randrange(0, 4))],
                                  "tsg_front": rng.random() < 0.4} if rng.random() < 0.4 else {})}
        if r2 < knobs["p_tok"] + 0.12:
            return {"op": "to_sequence", "fam": fi}
        if r2 < knobs["p_tok"] + 0.3 and fam.kind == "seq":
            n, d = _pick_sig(rng)
            return {"op": "make_bar", "fam": fi, "sig": [n, d], "key": rng.choice([None] + music.KEYS[:4])}
    return _gen_act(rng, world, fi, fam, knobs["inplace_bias"])


def _draw_knobs(rng, tier, prop):
    return {
        "lane": "baseline" if rng.random() < 0.12 else "fault",
        "n_events": rng.randrange(3, 15) if tier == "quick" else rng.randrange(3, 36),
        "p_derive": rng.choice([0.15, 0.25, 0.4]),
        "p_iter": rng.choice([0.0, 0.08, 0.2]),
        "p_read": rng.choice([0.0, 0.08, 0.2]),
        "p_tok": rng.choice([0.1, 0.25, 0.4]),
        "inplace_bias": rng.choice([0.5, 0.75, 0.9]) if prop == "C16" else rng.choice([0.3, 0.5]),
    }


def fam_run_one(prop, seed, tier, index):
    rng = random.Random(seed)
    knobs = _draw_knobs(rng, tier, prop)
    if knobs["lane"] == "baseline":
        knobs["p_iter"] = knobs["p_read"] = 0.0
    init = [_gen_family_init(rng, prop)]
    if prop == "C11" and rng.random() < 0.3:
        init.append(_gen_family_init(rng, prop))
    res = RunResult()
    events = []
    viol = None
    try:
        world = FamWorld(prop, init)
    except _V as v:
        v.v.event_index = -1
        return _result(res, None, v.v, {"engine": f"famworld/{prop}", "seed": seed, "lane": knobs["lane"], "init": init,
                                        "events": []}, prop)
    except core.RunTimeout:
        raise
    except Exception as e:
        res.trace = {"engine": f"famworld/{prop}", "seed": seed, "lane": knobs["lane"], "init": init, "events": []}
        res.foreign = f"init:{type(e).__name__}"
        res.stats[f"lane/{knobs['lane']}_runs"] += 1
        return res
    for _ in range(knobs["n_events"]):
        ev = _gen_event(rng, world, knobs, prop)
        prev = events[-1] if events else None
        if (prop == "C16" and prev is not None and prev.get("op") == "act" and prev.get("name") in ("merge", "concatenate")
                and prev.get("ref") is not None and world.fams[prev["fam"] % len(world.fams)].it is None and rng.random() < 0.5):
            # right after taking the other party as an argument: an operation that moves events of ONE view in place, before
            # anything rebuilds the receiver from copies
            name = rng.choice(["quantise", "quantise", "quantise_note_lengths", "cutoff", "direct_edit"])
            seqs = world.fams[prev["fam"] % len(world.fams)].seqs()
            if seqs:
                ev = {"op": "act", "fam": prev["fam"], "target": prev["target"], "name": name,
                      "args": OPS[name][1](rng, seqs[prev["target"] % len(seqs)])}
        events.append(ev)
        viol = world.apply(ev, len(events) - 1)
        if viol is not None or world.foreign:
            break
    if viol is None and not world.foreign:
        viol = world.finish()
    return _result(res, world, viol, {"engine": f"famworld/{prop}", "seed": seed, "lane": knobs["lane"], "init": init,
                                      "events": events}, prop)


def _result(res, world, viol, trace, prop):
    res.trace = trace
    res.violation = viol
    lane = trace.get("lane", "replay")
    if world is not None:
        res.foreign = world.foreign
        res.stats = world.stats
        res.events = world.log.n
        res.digest = world.log.digest()
        res.abstract = zlib.crc32(repr(world.abstract).encode()) | (len(world.abstract) << 32)
        if prop == "C16":
            res.nontrivial = world.mutations > 0 and len(world.fams) > 1
        else:
            res.nontrivial = world.mutations > 0
        res.stats[f"reach_families/{len(world.fams)}"] += 1
        res.log = world.log
    res.stats[f"lane/{lane}_runs"] += 1
    if viol is not None:
        res.stats[f"lane/{lane}_violations"] += 1
    return res


def fam_replay(prop, trace, keep_log=False):
    res = RunResult()
    try:
        world = FamWorld(prop, trace["init"], keep_log=keep_log)
    except _V as v:
        v.v.event_index = -1
        return _result(res, None, v.v, trace, prop)
    except core.RunTimeout:
        raise
    except Exception as e:
        res.trace = trace
        res.foreign = f"init:{type(e).__name__}"
        return res
    viol = None
    for i, ev in enumerate(trace["events"]):
        viol = world.apply(ev, i)
        if viol is not None or world.foreign:
            break
    if viol is None and not world.foreign:
        viol = world.finish()
    return _result(res, world, viol, trace, prop)


def _simplify(trace):
    init = trace["init"]
    for i, ini in enumerate(init):
        if ini["kind"] == "seq":
            for s in music.simplify_spec(ini["spec"]):
                t = dict(trace)
                t["init"] = init[:i] + [dict(ini, spec=s)] + init[i + 1:]
                yield t
        elif ini["kind"] in ("bar", "track"):
            bars = ini["bars"]
            if len(bars) > 1:
                for k in range(len(bars)):
                    t = dict(trace)
                    t["init"] = init[:i] + [dict(ini, bars=bars[:k] + bars[k + 1:])] + init[i + 1:]
                    yield t
            for k, b in enumerate(bars):
                for s in music.simplify_spec(b["spec"]):
                    t = dict(trace)
                    t["init"] = init[:i] + [dict(ini, bars=bars[:k] + [dict(b, spec=s)] + bars[k + 1:])] + init[i + 1:]
                    yield t
        elif ini["kind"] == "comp":
            trs = ini["tracks"]
            if len(trs) > 1:
                for k in range(len(trs)):
                    t = dict(trace)
                    t["init"] = init[:i] + [dict(ini, tracks=trs[:k] + trs[k + 1:])] + init[i + 1:]
                    yield t
            for a, tr in enumerate(trs):
                for k, b in enumerate(tr):
                    for s in music.simplify_spec(b["spec"]):
                        ntr = tr[:k] + [dict(b, spec=s)] + tr[k + 1:]
                        t = dict(trace)
                        t["init"] = init[:i] + [dict(ini, tracks=trs[:a] + [ntr] + trs[a + 1:])] + init[i + 1:]
                        yield t
    if len(init) > 1:
        for i in range(len(init)):
            t = dict(trace)
            t["init"] = init[:i] + init[i + 1:]
            yield t
    evs = trace["events"]
    for j, ev in enumerate(evs):
        if ev.get("extra"):
            t = dict(trace)
            t["events"] = evs[:j] + [dict(ev, extra=[])] + evs[j + 1:]
            yield t
        a = ev.get("args") or {}
        if "spec" in a:
            for s in music.simplify_spec(a["spec"]):
                t = dict(trace)
                t["events"] = evs[:j] + [dict(ev, args=dict(a, spec=s))] + evs[j + 1:]
                yield t
        if isinstance(a.get("args"), list) and a["args"]:
            t = dict(trace)
            t["events"] = evs[:j] + [dict(ev, args=dict(a, args=[]))] + evs[j + 1:]
            yield t
        if ev.get("op") == "tokenise" and ev.get("cuts"):
            t = dict(trace)
            t["events"] = evs[:j] + [dict(ev, cuts=[])] + evs[j + 1:]
            yield t


class _FamEngine:
    prop = None
    REAL = ["scoda Sequence / AbsoluteSequence / RelativeSequence / Message / Bar / Track / Composition",
            "MultiTrackLargeVocabularyNotelikeTokeniser (C11 only)", "everything they call"]
    STUB = ["nothing is stubbed; the simulator plays the callers (one task per family)"]

    @classmethod
    def run_one(cls, seed, tier, index):
        return fam_run_one(cls.prop, seed, tier, index)

    @classmethod
    def replay(cls, trace, keep_log=False):
        return fam_replay(cls.prop, trace, keep_log)

    @staticmethod
    def simplify(trace):
        return _simplify(trace)

    @staticmethod
    def sample_kind(r):
        lane = r.trace.get("lane")
        if lane == "baseline":
            return "baseline"
        if r.nontrivial:
            if any(e["op"].startswith("iter_") for e in r.trace["events"]):
                return "fault-with-iterator"
            return "fault"
        return None


class C16Engine(_FamEngine):
    prop = "C16"
    name = "famworld/C16"
    RULE = ("one run = one seeded schedule over 1..6 families (Sequence / Bar / Track / Composition) derived from one harness-built "
            "original through copy (every level), split, bar splitting with either re-quantisation setting, Composition.from_sequences, "
            "and chains of these; the scheduler picks which family acts next (in-place mutators weighted up, iterator steps, reads). "
            "distinct_nontrivial counts distinct abstract schedules (crc of the sequence of (event kind, op name, family kind, derivation "
            "route, iterator phase)) among runs with >=2 families and >=1 executed mutation.")
    ASSUMPTIONS = [
        "families only ever receive harness-built arguments (DESIGN L5), so no sanctioned sharing exists between them; routes that share "
        "by design (Bar(sequence), Bar.to_sequence, Track.to_sequence, concatenate, merge) stay inside one family or are not used",
        "legal histories only (DESIGN 4.3): a family with a suspended iterator only steps it or reads",
        "'copy equals original' is judged for Bar/Track/Composition only while the original satisfies its construction invariants "
        "(Bar.copy re-runs the constructor, which normalises and pads)",
        "observers read stored views and flags directly; equality is bit-for-bit on the stored message lists",
    ]

    @staticmethod
    def zero_cells(stats):
        want = ["copy:seq", "copy:bar", "copy:track", "copy:comp", "split", "bars_q", "bars_nq", "from_sequences", "toseq_copy"]
        return [w for w in want if stats.get(f"op/derive:{w}", 0) == 0]


class C11Engine(_FamEngine):
    prop = "C11"
    name = "famworld/C11"
    RULE = ("one run = one seeded operation history over integer-tick content with integer arguments: the Sequence alphabet (integer "
            "scale only), Bar construction from sequences shorter than / equal to the capacity, bar splitting, Track / Composition "
            "building with tracks of unequal length, to_sequence, tokenise (whole and chunked with a threaded state dict) and detokenise; "
            "the integer-type invariant is evaluated after every event on every stored and regenerated view. distinct_nontrivial counts "
            "distinct abstract schedules among runs with >=1 executed mutation.")
    ASSUMPTIONS = [
        "all inputs and arguments are integers (scale factors are integers >= 1; time signatures are those with an integer bar length)",
        "tokenise refusing an input (TokenisationException) is not judged here; only what it emits and stores",
    ]

    @staticmethod
    def zero_cells(stats):
        want = ["Bar()", "tokenise", "detokenise", "to_sequence:track", "to_sequence:comp", "derive:from_sequences",
                "derive:bars_q", "derive:bars_nq"]
        return [w for w in want if stats.get(f"op/{w}", 0) == 0]
