"""Alphabet of public Sequence operations used by the seqworld engines (C04, C11, C16).

Every op has: a generator of concrete, JSON-able arguments (drawn from the run's PRNG while looking at the
current subject, so that most generated events are legal and meaningful) and an applier that performs
exactly one public S-Coda call on a given Sequence. Appliers build sequence-valued arguments freshly from
specs (DESIGN L5), so subject and twin never share argument objects.
"""
from __future__ import annotations

from scoda.elements.message import Message
from scoda.enumerations.message_type import MessageType
from scoda.misc.music_theory import Key
from scoda.sequences.sequence import Sequence

from sim import music, observe
from sim.observe import MT

# kinds
MUT, VAL, READ, DROP, SWAP, ITER, DIRECT = "mut", "val", "read", "drop", "swap", "iter", "direct"


def _has_keys(seq):
    for lst in (observe.raw_abs(seq), observe.raw_rel(seq)):
        if lst is not None:
            return any(m.message_type is MT.KEY_SIGNATURE for m in lst)
    return False


def _late_tsig(seq):
    """True if some time signature does not sit at tick 0 (bar splitting then often raises BarException: foreign)."""
    a = observe.raw_abs(seq)
    if a is not None:
        return any(m.message_type is MT.TIME_SIGNATURE and m.time != 0 for m in a)
    r = observe.raw_rel(seq)
    t = 0
    for m in r or []:
        if m.message_type is MT.WAIT:
            t += m.time
        elif m.message_type is MT.TIME_SIGNATURE and t != 0:
            return True
    return False


def _count(seq):
    for lst in (observe.raw_abs(seq), observe.raw_rel(seq)):
        if lst is not None:
            return len(lst)
    return 0


def _abs_count(seq):
    """Number of messages the absolute view has / would have (0 if unknown)."""
    a = observe.raw_abs(seq)
    if a is not None:
        return len(a)
    r = observe.raw_rel(seq)
    if r is None:
        return 0
    n = sum(1 for m in r if m.message_type is not MT.WAIT)
    if r and r[-1].message_type is MT.WAIT:
        n += 1
    return n


def _duration(seq):
    try:
        return int(observe.canon_value(seq)[1])
    except Exception:
        return 0


def _note_ons(seq):
    try:
        return [(e[0], e[2], e[3]) for e in observe.canon_value(seq)[0] if e[1] == "note_on" and e[3] is not None]
    except Exception:
        return []


def _channels(seq):
    for lst in (observe.raw_abs(seq), observe.raw_rel(seq)):
        if lst is not None:
            return sorted({m.channel for m in lst if m.channel is not None}) or [0]
    return [0]


# ------------------------------------------------------------------ argument generators

def _arg_seq(rng, big=False):
    spec = music.gen_music(rng, max_notes=5 if not big else 8, channels=(0,) if rng.random() < 0.8 else (0, 1),
                           horizon=200, allow_empty=True)
    mode = rng.choice(["abs", "rel", "both", "abs", "rel"])
    if not spec["notes"] and not spec["tsigs"] and not spec["keys"] and rng.random() < 0.3:
        mode = "empty"
    out = {"spec": spec, "mode": mode}
    if mode != "empty" and rng.random() < 0.3:
        out["prep"] = rng.choice(["read", "set_channel", "quantise", "pad"])
        out["prep_arg"] = rng.randrange(1 << 10)
    return out


def g_add_abs(rng, seq):
    d = _duration(seq)
    kind = rng.random()
    t = rng.choice([0, d, rng.randrange(0, d + 30)])
    ch = rng.choice(_channels(seq))
    note = rng.randrange(30, 100)
    if kind < 0.8 and rng.random() < 0.35:
        # a message about a pitch the sequence already plays, at or shortly after one of its onsets: a re-strike, an early
        # release, a velocity-0 note-on while the pitch sounds
        ons = _note_ons(seq)
        if ons:
            t0, ch, note = ons[rng.randrange(len(ons))]
            t = t0 + rng.choice([0, 1, 2, 3, 6, 12, rng.randrange(0, 30)])
    if kind < 0.55:
        # a well-formed pair is added by two events; single messages are legal too (normalise cleans up)
        return {"msg": {"t": "note_on", "ch": ch, "time": t, "note": note,
                        "velocity": rng.randrange(1, 128) if rng.random() < 0.9 else 0}}
    if kind < 0.8:
        off = {"t": "note_off", "ch": ch, "time": t, "note": note}
        if rng.random() < 0.15:
            off["velocity"] = rng.randrange(0, 128)      # a release velocity: legal, and it makes two note-offs unequal
        return {"msg": off}
    if kind < 0.9:
        n, dn = rng.choice([(4, 4), (3, 4), (6, 8), (2, 4)])
        return {"msg": {"t": "time_signature", "ch": 0, "time": t, "numerator": n, "denominator": dn}}
    if kind < 0.93:
        return {"msg": {"t": "key_signature", "ch": 0, "time": t, "key": rng.choice(music.KEYS)}}
    if kind < 0.96:
        return {"msg": {"t": "program_change", "ch": ch, "time": t, "program": rng.randrange(128)}}
    if kind < 0.98:
        return {"msg": {"t": "control_change", "ch": ch, "time": t, "control": rng.randrange(120), "velocity": rng.randrange(128)}}
    return {"msg": {"t": "internal", "ch": ch, "time": d + rng.randrange(1, 50)}}


def g_add_rel(rng, seq):
    ch = rng.choice(_channels(seq))
    kind = rng.random()
    idx = None if rng.random() < 0.6 else rng.randrange(0, 64)
    if rng.random() < 0.12:
        idx = -rng.randrange(1, 5)      # Python-style index from the end (list.insert semantics)
    if kind < 0.4:
        return {"msg": {"t": "wait", "ch": ch, "time": rng.choice([1, 3, 6, 12, 24, rng.randrange(1, 60), rng.choice([6, 0, 2000])])},
                "index": idx}
    if kind < 0.65:
        return {"msg": {"t": "note_on", "ch": ch, "note": rng.randrange(30, 100),
                        "velocity": rng.randrange(1, 128) if rng.random() < 0.93 else 0}, "index": idx}
    if kind < 0.85:
        return {"msg": {"t": "note_off", "ch": ch, "note": rng.randrange(30, 100)}, "index": idx}
    if kind < 0.92:
        n, dn = rng.choice([(4, 4), (3, 4), (6, 8), (2, 4)])
        return {"msg": {"t": "time_signature", "ch": 0, "numerator": n, "denominator": dn}, "index": idx}
    if kind < 0.96:
        return {"msg": {"t": "key_signature", "ch": 0, "key": rng.choice(music.KEYS)}, "index": idx}
    if kind < 0.98:
        return {"msg": {"t": "program_change", "ch": ch, "program": rng.randrange(128)}, "index": idx}
    return {"msg": {"t": "control_change", "ch": ch, "control": rng.randrange(120), "velocity": rng.randrange(128)}, "index": idx}


def g_seqlist(rng, seq):
    return {"args": [_arg_seq(rng) for _ in range(rng.choice([1, 1, 1, 2, 0]))]}


def g_cutoff(rng, seq):
    m = rng.choice([6, 12, 18, 24, 36, rng.randrange(1, 60)])
    r = rng.choice([m, max(1, m // 2), rng.randrange(1, m + 1)])
    return {"max": m, "red": r}


def g_none(rng, seq):
    return {}


def g_overwrite_abs(rng, seq):
    spec = music.gen_music(rng, max_notes=5, horizon=200)
    # the method sorts what it is given (binary insort by time): hand it the ticks in a scrambled order half of the time
    return {"spec": spec, "perm": rng.randrange(1, 1 << 20) if rng.random() < 0.5 else 0}


def g_overwrite_rel(rng, seq):
    spec = music.gen_music(rng, max_notes=5, horizon=200)
    return {"spec": spec}


def g_pad(rng, seq):
    d = _duration(seq)
    return {"n": rng.choice([0, d, d + 1, max(0, d - 1), d + rng.randrange(1, 100), rng.randrange(0, 400), 96, 192,
                             rng.choice([96, 5000])])}


def g_set_channel(rng, seq):
    return {"ch": rng.randrange(0, 4) if rng.random() < 0.8 else rng.randrange(0, 16)}


def g_split(rng, seq):
    d = max(_duration(seq), 1)
    k = rng.choice([1, 1, 2, 3])
    caps = []
    for _ in range(k):
        caps.append(rng.choice([24, 48, 96, max(1, d // 2), d, d + 5, rng.randrange(1, d + 10)]))
    if k > 1 and rng.random() < 0.2:
        caps[1] = caps[0]                      # repeated capacity
    if rng.random() < 0.03:
        caps[rng.randrange(len(caps))] = 0     # degenerate but accepted capacity
    if rng.random() < 0.02:
        caps = []                              # nothing to cut: one piece holding everything
    return {"caps": caps}


def g_scale(rng, seq):
    r = rng.random()
    if r < 0.06:
        f = 0.5 if rng.random() < 0.8 else 0.25
    else:
        f = rng.choice([1, 2, 2, 3, 4])
    # meta sequence: default, the receiver itself (it is only read: a natural "use its own signatures" call), or another one
    meta = None
    r2 = rng.random()
    if r2 < 0.15 or (f < 1 and r2 < 0.5):
        meta = "self"
    elif r2 < 0.25:
        meta = _arg_seq(rng)
    return {"factor": f, "q": rng.random() < 0.5, "meta": meta}


def g_transpose(rng, seq):
    r = rng.random()
    if _has_keys(seq):
        k = rng.choice([1, 2, 3, 5, 7, -1, -2, -5, -7, 11]) if r < 0.985 else rng.choice([12, -12, 0])
    elif r < 0.8:
        k = rng.randrange(-14, 15)
    elif r < 0.9:
        k = rng.choice([12, -12, 24, 0])
    else:
        k = rng.choice([60, -60, 90, -90, 40])
    return {"by": k}


def _helper_list(rng):
    """A grid / note-value list produced at apply time by the library's own helpers (the documented way to build these
    arguments) from integer bounds."""
    r = rng.random()
    if r < 0.35:
        return {"helper": ["get_default_step_sizes", rng.choice([0, 1, 1, 2]), rng.choice([0, 0, 1])]}
    if r < 0.65:
        return {"helper": ["get_note_durations", rng.choice([1, 2, 4]), rng.choice([2, 4, 8])]}
    if r < 0.78:
        return {"helper": ["tuplets", rng.choice([1, 2, 4]), rng.choice([2, 4]), rng.choice([[3, 2], [5, 4]])]}
    if r < 0.93:
        # "every note value there is" : plain, tuplet and dotted values together - a table of 20 and more entries
        return {"helper": ["all", rng.choice([4, 4, 2]), rng.choice([8, 8, 4]), rng.choice([[3, 2], [5, 4]]), rng.choice([1, 2])]}
    return {"helper": ["dotted", rng.choice([1, 2, 4]), rng.choice([2, 4]), rng.choice([1, 2])]}


def resolve_list(x):
    """None | literal list | {"helper": [...]} -> what is passed to the library."""
    if not isinstance(x, dict):
        return list(x) if x is not None else None
    from scoda.misc import util
    h = x["helper"]
    if h[0] == "get_default_step_sizes":
        return util.get_default_step_sizes(upper_bound_shift=h[1], lower_bound_shift=h[2])
    base = util.get_note_durations(h[1], h[2])
    if h[0] == "get_note_durations":
        return base
    if h[0] == "tuplets":
        return base + util.get_tuplet_durations(base, h[3][0], h[3][1])
    if h[0] == "all":
        return base + util.get_tuplet_durations(base, h[3][0], h[3][1]) + util.get_dotted_note_durations(base, h[4])
    return base + util.get_dotted_note_durations(base, h[3])


def g_quantise(rng, seq):
    if rng.random() < 0.2:
        return {"steps": _helper_list(rng)}
    return {"steps": rng.choice([None, None, [6], [12], [4, 6], [3], [8, 6], [24], [2, 3]])}


def g_qnl(rng, seq):
    if rng.random() < 0.2:
        return {"values": _helper_list(rng), "dne": rng.random() < 0.4}
    return {"values": rng.choice([None, None, [6, 12, 24], [12], [4, 8, 16], [24, 48], [6]]),
            "dne": rng.random() < 0.4, "std": rng.choice([24, 24, 24, 12, 48])}


def g_qan(rng, seq):
    return {"steps": _helper_list(rng) if rng.random() < 0.15 else rng.choice([None, None, [6], [4, 6]]),
            "values": _helper_list(rng) if rng.random() < 0.15 else rng.choice([None, None, [6, 12, 24]]),
            "dne": rng.random() < 0.3, "std": rng.choice([24, 24, 12, 48])}


def g_equals(rng, seq):
    r = rng.random()
    flags = [rng.random() < 0.2 for _ in range(4)]
    if r < 0.5:
        return {"other": "self-clone", "flags": flags}
    return {"other": _arg_seq(rng), "flags": flags}


def g_pairings(rng, seq):
    types = rng.choice([None, None, ["note_on", "note_off"], ["note_on", "note_off", "time_signature"],
                        ["note_on", "note_off", "time_signature", "key_signature", "internal"]])
    return {"types": types, "std": rng.choice([24, 12]), "impute": rng.random() < 0.85}


def g_times_of_type(rng, seq):
    return {"types": rng.choice([["time_signature"], ["key_signature"], ["note_on"], ["time_signature", "key_signature"],
                                 ["internal"], ["program_change"]])}


def g_split_bars(rng, seq):
    extra = []
    if rng.random() < 0.3:
        extra = [_arg_seq(rng)]
    pos = rng.randrange(0, len(extra) + 1)
    meta = rng.choice([pos, pos, rng.randrange(0, len(extra) + 1)])
    return {"extra": extra, "pos": pos, "meta": meta, "qnl": rng.random() < 0.5}


def g_direct(rng, seq):
    return {"view": rng.choice(["abs", "rel"]), "index": rng.randrange(0, 1 << 16), "field": rng.randrange(0, 1 << 16),
            "value": rng.randrange(0, 1 << 16)}


def g_view_call(rng, seq):
    """README 'Implementational Details', structural variant: an operation of the *view object* handed out by the accessor
    (`seq.abs.add_message(m)`, `seq.rel.pad(n)` ...), followed by invalidating the other view."""
    m = rng.choice(["abs.add_message", "abs.add_message", "abs.sort", "abs.quantise", "abs.cutoff", "abs.normalise_absolute",
                    "rel.add_message", "rel.add_message", "rel.pad", "rel.transpose", "rel.set_channel",
                    "rel.normalise_relative"])
    sub = {"abs.add_message": g_add_abs, "abs.quantise": g_quantise, "abs.cutoff": g_cutoff, "rel.add_message": g_add_rel,
           "rel.pad": g_pad, "rel.transpose": g_transpose, "rel.set_channel": g_set_channel}.get(m, g_none)(rng, seq)
    return {"method": m, "sub": sub}


# ------------------------------------------------------------------ appliers

def _build(a):
    """A sequence-valued argument. `prep` makes it a *used* object (stale leftovers, regenerated views) instead of a
    pristine one; with `clean` the caller gets a clone that carries only the fresh views - the value is the same, so an
    operation must treat both alike (the clean twin is given the clean one)."""
    if "_live" in a:
        return a["_live"]      # another subject of the run, handed over as it is (resolved by the world, never stored in a trace)
    q = music.build_sequence(a["spec"], a["mode"])
    prep = a.get("prep")
    if prep:
        try:
            if prep == "read":
                q.abs
                q.rel
            elif prep == "set_channel":
                q.rel
                q.abs
                q.set_channel(a.get("prep_arg", 0) % 4)
            elif prep == "quantise":
                q.rel
                q.quantise([6])
            elif prep == "pad":
                q.abs
                q.pad(a.get("prep_arg", 0) % 300)
        except Exception:
            q = music.build_sequence(a["spec"], a["mode"])
    if a.get("_clean"):
        q = observe.clone_seq(q)
    return q


def _types(names):
    return None if names is None else [MessageType(n) for n in names]


def a_add_abs(s, a):
    s.add_absolute_message(music.msg_from_dict(a["msg"]))


def a_add_rel(s, a):
    idx = a.get("index")
    if idx is not None and idx >= 0:
        n = _count_rel(s)
        idx = idx % (n + 1)
    s.add_relative_message(music.msg_from_dict(a["msg"]), index=idx)


def _count_rel(s):
    """Length the relative view has / would have; computed on a clone so the subject is not perturbed."""
    r = observe.raw_rel(s)
    if r is not None:
        return len(r)
    try:
        return len(observe.clone_seq(s).rel._messages)
    except Exception:
        return 0


def a_concatenate(s, a):
    s.concatenate([_build(x) for x in a["args"]])


def a_cutoff(s, a):
    s.cutoff(a["max"], a["red"])


def a_merge(s, a):
    s.merge([_build(x) for x in a["args"]])


def a_normalise(s, a):
    s.normalise()


def a_overwrite_abs(s, a):
    msgs = music.render_abs(a["spec"])
    if a.get("perm"):
        # scramble the order of the ticks, keep the order inside one tick (DESIGN L6)
        groups = {}
        for m in msgs:
            groups.setdefault(m.time, []).append(m)
        ticks = sorted(groups)
        x = a["perm"]
        for i in range(len(ticks) - 1, 0, -1):
            x = (x * 1103515245 + 12345) & 0x7FFFFFFF
            j = x % (i + 1)
            ticks[i], ticks[j] = ticks[j], ticks[i]
        msgs = [m for t in ticks for m in groups[t]]
    s.overwrite_absolute_messages(msgs)


def a_overwrite_rel(s, a):
    s.overwrite_relative_messages(music.render_rel(a["spec"]))


def a_pad(s, a):
    s.pad(a["n"])


def a_set_channel(s, a):
    s.set_channel(a["ch"])


def a_scale(s, a):
    meta = a.get("meta")
    if meta == "self":
        meta = s
    elif meta is not None:
        meta = _build(meta)
    s.scale(a["factor"], meta, a["q"])


def a_transpose(s, a):
    return s.transpose(a["by"])


def a_quantise(s, a):
    s.quantise(resolve_list(a["steps"]))


def a_qnl(s, a):
    s.quantise_note_lengths(resolve_list(a["values"]), standard_length=a.get("std", 24), do_not_extend=a["dne"])


def a_qan(s, a):
    s.quantise_and_normalise(resolve_list(a["steps"]), resolve_list(a["values"]), standard_length=a.get("std", 24),
                             do_not_extend=a["dne"])


def _seq_canon(x):
    return list(observe.canon_views(x))


def a_split(s, a):
    pieces = s.split(list(a["caps"]))
    return {"pieces": pieces}


def a_copy(s, a):
    return {"pieces": [s.copy()]}


def a_equals(s, a):
    other = observe.clone_seq(s) if a["other"] == "self-clone" else _build(a["other"])
    f = a["flags"]
    return bool(s.equals(other, f[0], f[1], f[2], f[3]))


def a_eq(s, a):
    other = observe.clone_seq(s) if a["other"] == "self-clone" else _build(a["other"])
    return bool(s == other)


def _ro(m):
    return (m.message_type.value, m.channel, m.time, m.note, m.velocity, m.numerator, m.denominator,
            m.key.value if m.key is not None else None, m.program, m.control)


def a_pairings(s, a):
    res = s.get_message_pairings(_types(a["types"]), standard_length=a["std"], impute_notes=a["impute"])
    return [[ch, [[_ro(m) for m in p] for p in ps]] for ch, ps in res.items()]


def a_interleaved(s, a):
    res = s.get_interleaved_message_pairings(_types(a["types"]), standard_length=a["std"], impute_notes=a["impute"])
    return [[ch, [_ro(m) for m in p]] for ch, p in res]


def a_times_of_type(s, a):
    return [[t, _ro(m)] for t, m in s.get_message_times_of_type(_types(a["types"]))]


def a_get_channel(s, a):
    return s.get_sequence_channel()


def a_get_duration(s, a):
    return s.get_sequence_duration()


def a_get_duration_rel(s, a):
    return s.get_sequence_duration_relation()


def a_is_cc(s, a):
    return s.is_channel_consistent()


def a_is_empty(s, a):
    return s.is_empty()


def a_to_midi_track(s, a):
    tr = s.to_midi_track()
    return [(m.message_type.value, m.channel, m.time, m.note, m.velocity, m.numerator, m.denominator,
             m.key.value if m.key is not None else None, m.program, m.control) for m in tr.messages]


def a_split_bars(s, a):
    seqs = [_build(x) for x in a["extra"]]
    seqs.insert(a["pos"], s)
    tracks = Sequence.sequences_split_bars(seqs, meta_track_index=a["meta"], quantise_note_lengths=a["qnl"])
    return {"bars": tracks, "own": a["pos"]}


BAR_SIGS = [(4, 4), (3, 4), (2, 4), (6, 8), (2, 2), (5, 4), (3, 8), (12, 8), (7, 8)]


def g_make_bar(rng, seq):
    d = _duration(seq)
    fits = [sg for sg in BAR_SIGS if 24 * 4 * sg[0] // sg[1] >= d]
    n, dn = rng.choice(fits) if fits and rng.random() < 0.9 else rng.choice(BAR_SIGS)
    return {"sig": [n, dn], "key": rng.choice([None, None, "C", "Eb"]), "dch": rng.choice([0, 0, 0, 1, 9])}


def a_make_bar(s, a):
    """Bar(sequence, n, d): the constructor drives the sequence through normalise / pad / messages_rel / overwrite /
    add_relative_message (and writes a staleness flag directly); the sequence stays the subject."""
    from scoda.elements.bar import Bar
    b = Bar(s, a["sig"][0], a["sig"][1], Key(a["key"]) if a.get("key") else None, default_channel=a.get("dch", 0))
    return [b.time_signature_numerator, b.time_signature_denominator,
            b.key_signature.value if b.key_signature is not None else None, b.sequence is s]


def pre_make_bar(s, a):
    # a sequence longer than the bar, or carrying another / a second signature, is refused by the constructor (C10's
    # business) after it has already normalised the sequence; keep such calls out of the histories
    d = _duration(s)
    if d > 24 * 4 * a["sig"][0] // a["sig"][1]:
        return False
    try:
        ev = observe.canon_value(s)[0]
    except Exception:
        return False
    ts = [e for e in ev if e[1] == "time_signature"]
    return len(ts) == 0 or (len(ts) == 1 and (ts[0][5], ts[0][6]) == tuple(a["sig"]))


_TOKENISER = []


def a_tokenise(s, a):
    """tokenise([s]) assigns channel 0 to the input (a mutation through set_channel) and reads it through merge."""
    from scoda.exceptions.tokenisation_exception import TokenisationException
    from scoda.tokenisation.notelike_tokenisation import MultiTrackLargeVocabularyNotelikeTokeniser
    if not _TOKENISER:
        _TOKENISER.append(MultiTrackLargeVocabularyNotelikeTokeniser(num_tracks=1, flag_fuse_track=False))
    try:
        return ["tokens", _TOKENISER[0].tokenise([s], state_dict={})]
    except TokenisationException as e:
        return ["refused", str(e)[:60]]


def a_to_file(s, a):
    """Sequence.save / sequences_save to a scratch file: a read of the sequence as far as its views are concerned."""
    import os
    import tempfile
    d = "/dev/shm" if os.path.isdir("/dev/shm") and os.access("/dev/shm", os.W_OK) else tempfile.gettempdir()
    fd, path = tempfile.mkstemp(prefix="scoda_c04_", suffix=".mid", dir=d)
    os.close(fd)
    try:
        if a.get("static"):
            Sequence.sequences_save([s], path)
        else:
            s.save(path)
        return os.path.getsize(path) > 0
    finally:
        try:
            os.remove(path)
        except OSError:
            pass


def g_to_file(rng, seq):
    return {"static": rng.random() < 0.5}


def a_read_abs(s, a):
    s.abs


def a_read_rel(s, a):
    s.rel


def a_refresh(s, a):
    s.refresh()


# field edits (L3) -----------------------------------------------------------------

def resolve_edit(msg, view, field_raw, value_raw, prev_time=None, next_time=None):
    """Resolve raw integers to a legal (field, value) for this message, or None."""
    t = msg.message_type
    if t is MT.NOTE_ON:
        fields = ["note", "velocity", "channel"] + (["time"] if view == "abs" else [])
    elif t is MT.NOTE_OFF:
        fields = ["note", "channel"] + (["time"] if view == "abs" else [])
    elif t is MT.TIME_SIGNATURE:
        fields = ["numerator", "denominator"] + (["time"] if view == "abs" else [])
    elif t is MT.KEY_SIGNATURE:
        fields = ["key"]
    elif t is MT.WAIT:
        fields = ["time"] if view == "rel" else []
    elif t is MT.PROGRAM_CHANGE:
        fields = ["program"]
    else:
        fields = []
    if not fields:
        return None
    f = fields[field_raw % len(fields)]
    # odd raw values draw from a tiny pool per field, so that a later edit often restores an earlier value (a -> b -> a)
    tiny = value_raw & 1
    k = value_raw >> 1
    if f == "note":
        v = [60, 62][k % 2] if tiny else 30 + value_raw % 70
    elif f == "velocity":
        v = [64, 100, 0, 100][k % 4] if tiny else 1 + value_raw % 127
    elif f == "channel":
        v = k % 2 if tiny else value_raw % 4
    elif f == "numerator":
        v = [3, 4][k % 2] if tiny else [2, 3, 4, 5, 6][value_raw % 5]
    elif f == "denominator":
        v = [4, 8][k % 2] if tiny else [2, 4, 8][value_raw % 3]
    elif f == "key":
        v = Key(["C", "G"][k % 2]) if tiny else Key(music.KEYS[value_raw % len(music.KEYS)])
    elif f == "program":
        v = [0, 40][k % 2] if tiny else value_raw % 128
    elif f == "time":
        if view == "rel":
            v = [6, 12][k % 2] if tiny else 1 + value_raw % 48
        else:
            lo = prev_time if prev_time is not None else 0
            hi = next_time if next_time is not None else msg.time + 12
            if hi < lo:
                return None
            v = lo + value_raw % (hi - lo + 1)
    else:
        return None
    return f, v


def a_direct(s, a):
    """README 'Implementational Details': edit through the accessor, then invalidate the other view."""
    view = a["view"]
    lst = (s.abs if view == "abs" else s.rel)._messages
    if not lst:
        return "empty"
    i = a["index"] % len(lst)
    m = lst[i]
    prev_t = lst[i - 1].time if (view == "abs" and i > 0) else (0 if view == "abs" else None)
    next_t = lst[i + 1].time if (view == "abs" and i + 1 < len(lst)) else None
    r = resolve_edit(m, view, a["field"], a["value"], prev_t, next_t)
    if r is None:
        if view == "abs":
            s.invalidate_rel()
        else:
            s.invalidate_abs()
        return "noedit"
    setattr(m, r[0], r[1])
    if view == "abs":
        s.invalidate_rel()
    else:
        s.invalidate_abs()
    return [r[0], r[1].value if isinstance(r[1], Key) else r[1]]


def a_view_call(s, a):
    view, meth = a["method"].split(".")
    sub = a.get("sub", {})
    v = s.abs if view == "abs" else s.rel
    try:
        if meth == "add_message" and view == "abs":
            v.add_message(music.msg_from_dict(sub["msg"]))
        elif meth == "add_message":
            idx = sub.get("index")
            if idx is not None and idx >= 0:
                idx = idx % (len(v._messages) + 1)
            v.add_message(music.msg_from_dict(sub["msg"]), index=idx)
        elif meth == "quantise":
            v.quantise(resolve_list(sub["steps"]))
        elif meth == "cutoff":
            v.cutoff(sub["max"], sub["red"])
        elif meth == "pad":
            v.pad(sub["n"])
        elif meth == "transpose":
            return v.transpose(sub["by"])
        elif meth == "set_channel":
            v.set_channel(sub["ch"])
        else:
            getattr(v, meth)()
    finally:
        if view == "abs":
            s.invalidate_rel()
        else:
            s.invalidate_abs()


def pre_view_call(s, a):
    return a["method"] != "rel.pad" or a["sub"]["n"] <= MAX_TICKS


def pre_scale(s, a, meta_seq=None):
    """L1 precondition: a fractional factor is only legal when it keeps every tick an integer (the library's tick domain is
    the integers; scale(0.5) on an odd wait would create half ticks, which no view conversion is required to preserve)."""
    f = a["factor"]
    if f >= 1:
        # keep the tick domain bounded (DESIGN 3.6): repeated scaling would otherwise reach millions of ticks and the bar
        # splitting inside a later fractional scale would take minutes - slow, not wrong
        return _duration(s) * f <= MAX_TICKS
    try:
        r = observe.clone_seq(s).rel._messages
    except Exception:
        return True
    inv = round(1 / f)
    if not all((m.time % inv) == 0 for m in r if m.message_type is MT.WAIT):
        return False
    # a fractional scale cuts the sequence at the bar lines of its meta sequence: a bar whose capacity is not a multiple of
    # 1/factor (3/32 = 9 ticks, say) leaves odd pieces of waits and so half ticks, again outside the tick domain
    meta = a.get("meta")
    metas = [r]
    if meta_seq is not None:
        metas.append(_stored_msgs(meta_seq))
    elif meta is not None and meta != "self":
        try:
            metas.append(_build(meta).rel._messages)
        except Exception:
            pass
    for msgs in metas:
        for m in msgs or []:
            if m.message_type is MT.TIME_SIGNATURE and (24 * 4 * m.numerator // m.denominator) % inv:
                return False
    return True


def _stored_msgs(seq):
    a = observe.raw_abs(seq)
    return a if a is not None else observe.raw_rel(seq)


def pre_pad(s, a):
    return a["n"] <= MAX_TICKS


MAX_TICKS = 20000
PRECOND = {"scale": pre_scale, "pad": pre_pad, "Bar()": pre_make_bar, "view_call": pre_view_call}

# ------------------------------------------------------------------ the table

# name -> (kind, generator, applier, weight, sorts_abs_in_place)
OPS = {
    "add_absolute_message": (MUT, g_add_abs, a_add_abs, 5, False),
    "add_relative_message": (MUT, g_add_rel, a_add_rel, 5, False),
    "concatenate": (MUT, g_seqlist, a_concatenate, 4, False),
    "cutoff": (MUT, g_cutoff, a_cutoff, 4, True),
    "merge": (MUT, g_seqlist, a_merge, 4, False),
    "normalise": (MUT, g_none, a_normalise, 5, False),
    "overwrite_absolute_messages": (MUT, g_overwrite_abs, a_overwrite_abs, 4, False),
    "overwrite_relative_messages": (MUT, g_overwrite_rel, a_overwrite_rel, 4, False),
    "pad": (MUT, g_pad, a_pad, 5, False),
    "set_channel": (MUT, g_set_channel, a_set_channel, 4, False),
    "scale": (MUT, g_scale, a_scale, 4, False),
    "transpose": (MUT, g_transpose, a_transpose, 5, False),
    "quantise": (MUT, g_quantise, a_quantise, 4, False),
    "quantise_note_lengths": (MUT, g_qnl, a_qnl, 4, True),
    "quantise_and_normalise": (MUT, g_qan, a_qan, 3, True),
    "direct_edit": (DIRECT, g_direct, a_direct, 4, False),
    "view_call": (DIRECT, g_view_call, a_view_call, 3, True),
    "tokenise": (MUT, g_none, a_tokenise, 2, True),
    "Bar()": (MUT, g_make_bar, a_make_bar, 3, False),
    "split": (VAL, g_split, a_split, 4, False),
    "copy": (VAL, g_none, a_copy, 3, False),
    "equals": (VAL, g_equals, a_equals, 2, True),
    "__eq__": (VAL, g_equals, a_eq, 1, True),
    "get_message_pairings": (VAL, g_pairings, a_pairings, 2, True),
    "get_interleaved_message_pairings": (VAL, g_pairings, a_interleaved, 2, True),
    "get_message_times_of_type": (VAL, g_times_of_type, a_times_of_type, 2, False),
    "get_sequence_channel": (VAL, g_none, a_get_channel, 1, False),
    "get_sequence_duration": (VAL, g_none, a_get_duration, 2, False),
    "get_sequence_duration_relation": (VAL, g_none, a_get_duration_rel, 2, False),
    "is_channel_consistent": (VAL, g_none, a_is_cc, 1, False),
    "is_empty": (VAL, g_none, a_is_empty, 1, False),
    "to_midi_track": (VAL, g_none, a_to_midi_track, 2, False),
    "save": (VAL, g_to_file, a_to_file, 1, False),
    "sequences_split_bars": (VAL, g_split_bars, a_split_bars, 2, False),
    "read_abs": (READ, g_none, a_read_abs, 4, False),
    "read_rel": (READ, g_none, a_read_rel, 4, False),
    "refresh": (READ, g_none, a_refresh, 2, False),
}

MUTATORS = [k for k, v in OPS.items() if v[0] in (MUT, DIRECT)]
VALUE_OPS = [k for k, v in OPS.items() if v[0] == VAL]
READ_OPS = [k for k, v in OPS.items() if v[0] == READ]
# value ops that only read and never sort a stored list in place: allowed while an iterator is suspended (L2)
ITER_SAFE_READS = ["read_abs", "read_rel", "refresh", "get_sequence_duration", "get_sequence_duration_relation",
                   "is_empty", "is_channel_consistent", "get_message_times_of_type", "copy"]
NEEDS_NONEMPTY_ABS = {"get_sequence_duration", "get_sequence_channel"}
ALL_OPS = list(OPS) + ["drop_abs", "drop_rel", "copy_swap", "iter_abs", "iter_rel"]


def weighted_choice(rng, names, enabled=None):
    names = [n for n in names if (enabled is None or n in enabled)]
    if not names:
        return None
    ws = [OPS[n][3] for n in names]
    total = sum(ws)
    x = rng.random() * total
    acc = 0
    for n, w in zip(names, ws):
        acc += w
        if x < acc:
            return n
    return names[-1]
