#!/venv/bin/python
"""False-alarm soak: run every claimed check's quick (or thorough) tier under many VERIF_SEED values on the unchanged
tree; every run must exit 0. usage: soak.py [--seeds 1-20] [--tier quick] [--props C03,C04,...] [--workers N]"""
import argparse, json, os, subprocess, sys, time
HERE = os.path.dirname(os.path.abspath(__file__))
VERIF = os.path.dirname(HERE)
ap = argparse.ArgumentParser()
ap.add_argument("--seeds", default="1-20")
ap.add_argument("--tier", default="quick")
ap.add_argument("--props", default="C03,C04,C11,C12,C13,C16")
ap.add_argument("--workers", default="16")
ap.add_argument("--out", default=os.path.join(HERE, "soak.json"))
a = ap.parse_args()
lo, hi = [int(x) for x in a.seeds.split("-")]
rows = []
bad = 0
for seed in range(lo, hi + 1):
    for prop in a.props.split(","):
        env = dict(os.environ, VERIF_SEED=str(seed))
        t0 = time.time()
        p = subprocess.run(["/venv/bin/python", os.path.join(VERIF, "check.py"), prop, "--tier", a.tier, "--workers", a.workers],
                           capture_output=True, text=True, env=env, cwd=VERIF)
        last = p.stdout.strip().splitlines()[-1] if p.stdout.strip() else ""
        rows.append({"seed": seed, "property": prop, "exit": p.returncode, "wall_s": round(time.time() - t0, 1), "summary": last[:300]})
        if p.returncode != 0:
            bad += 1
            print("NONZERO", seed, prop, p.returncode, p.stdout[-1500:], flush=True)
        else:
            print("ok", seed, prop, last[:160], flush=True)
json.dump({"tier": a.tier, "seeds": a.seeds, "nonzero": bad, "rows": rows}, open(a.out, "w"), indent=1)
print("soak done; nonzero exits:", bad)
sys.exit(1 if bad else 0)
