#!/venv/bin/python
"""Run the checks against the seeded breaking changes kept under /verif/seeded/<id>/ (patch.diff, demo.py, meta.json).
Each patch is applied to a scratch copy of /repo/scoda outside /repo and /verif (removed afterwards); VERIF_REPO points the
check at it. Confirms: demo passes on the unchanged tree, fails with the patch; the property's quick check exits 1 with a
replay that reproduces. usage: seeded.py [--only id,id] [--tier quick]"""
import argparse, json, os, re, shutil, subprocess, sys, tempfile, time
HERE = os.path.dirname(os.path.abspath(__file__))
VERIF = os.path.dirname(HERE)
SEEDED = os.path.join(VERIF, "seeded")
ap = argparse.ArgumentParser()
ap.add_argument("--only")
ap.add_argument("--tier", default="quick")
ap.add_argument("--out", default=os.path.join(HERE, "seeded_results.json"))
a = ap.parse_args()
only = set(a.only.split(",")) if a.only else None
results = []
if os.path.exists(a.out):
    try:
        results = json.load(open(a.out))["results"]
    except Exception:
        results = []
for sid in sorted(os.listdir(SEEDED)):
    d = os.path.join(SEEDED, sid)
    if not os.path.isdir(d) or (only and sid not in only):
        continue
    meta = json.load(open(os.path.join(d, "meta.json")))
    tmp = tempfile.mkdtemp(prefix="scoda_seed_", dir="/tmp")
    try:
        shutil.copytree("/repo/scoda", os.path.join(tmp, "scoda"))
        for f in os.listdir("/repo"):
            if os.path.isfile(os.path.join("/repo", f)):
                shutil.copy(os.path.join("/repo", f), os.path.join(tmp, f))
        p = subprocess.run(["patch", "-p1", "-d", tmp, "-i", os.path.join(d, "patch.diff")], capture_output=True, text=True)
        if p.returncode != 0:
            print("PATCH FAILED", sid, p.stdout, p.stderr)
            results = [r for r in results if r["id"] != sid] + [{"id": sid, "property": meta["property"], "verdict": "PATCH-FAILED"}]
            continue
        demo = os.path.join(d, "demo.py")
        d_orig = subprocess.run(["/venv/bin/python", demo, "/repo"], capture_output=True, text=True, timeout=600).returncode
        d_mut = subprocess.run(["/venv/bin/python", demo, tmp], capture_output=True, text=True, timeout=600).returncode
        row = {"id": sid, "property": meta["property"], "demo_on_unchanged": d_orig, "demo_on_patched": d_mut, "checks": {}}
        for prop in [meta["property"]] + meta.get("also_check", []):
            env = dict(os.environ, VERIF_REPO=tmp)
            t0 = time.time()
            q = subprocess.run(["/venv/bin/python", os.path.join(VERIF, "check.py"), prop, "--tier", a.tier],
                               capture_output=True, text=True, env=env, cwd=VERIF, timeout=3000)
            classes = sorted(set(re.findall(r"class=(\S+)", q.stdout)))
            replays = re.findall(r"VIOLATION property=\S+ replay=(\S+)", q.stdout)
            stable = True
            for rp in replays[:2]:
                r2 = subprocess.run(["/venv/bin/python", os.path.join(VERIF, "check.py"), prop, "--replay", rp, "--quiet"],
                                    capture_output=True, text=True, env=env, cwd=VERIF, timeout=300)
                stable = stable and r2.returncode == 1
            for rp in replays:
                try:
                    os.remove(rp)
                except OSError:
                    pass
            row["checks"][prop] = {"exit": q.returncode, "classes": classes, "replays_reproduce": stable, "wall_s": round(time.time() - t0, 1),
                                   "tail": q.stdout.strip().splitlines()[-1][:200] if q.stdout.strip() else q.stderr[-300:]}
        main = row["checks"][meta["property"]]
        if meta.get("expect") == "neutralised":
            # the weakness this change exploited has been repaired in /repo: it must no longer break the property
            row["verdict"] = "neutralised-ok" if (main["exit"] == 0 and d_mut == 0) else "UNEXPECTED"
        elif meta.get("expect") == "out-of-reach":
            # documented in DESIGN 12.6: the trigger cannot occur on this code path under a faithful fault model
            row["verdict"] = "out-of-reach (as documented)" if main["exit"] == 0 else \
                ("caught" if (main["exit"] == 1 and main["replays_reproduce"]) else "UNEXPECTED")
        else:
            others = [k for k, c in row["checks"].items() if k != meta["property"] and c["exit"] == 1 and c["replays_reproduce"]]
            row["verdict"] = "caught" if (main["exit"] == 1 and main["replays_reproduce"]) else \
                ("caught-by-" + "+".join(others) if others else "MISSED")
        results = [r for r in results if r["id"] != sid] + [row]
        print(json.dumps(row), flush=True)
    finally:
        shutil.rmtree(tmp, ignore_errors=True)
results.sort(key=lambda r: r["id"])
json.dump({"tier": a.tier, "results": results}, open(a.out, "w"), indent=1)
print("seeded:", {r["id"]: r["verdict"] for r in results})
