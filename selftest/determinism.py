#!/venv/bin/python
"""Determinism self-test: for every claimed property, N run indices are executed four times in fresh interpreters:
PYTHONHASHSEED=0 / in-process, PYTHONHASHSEED=random-ish (12345, 987) / in-process, and through a 16-worker fork pool.
The per-run event-log digests (choices AND observed behaviour) must be identical across all four.
usage: determinism.py [--n 400] [--props C03,...] [--seeds 0,7]"""
import argparse, json, os, subprocess, sys
HERE = os.path.dirname(os.path.abspath(__file__))
VERIF = os.path.dirname(HERE)
ap = argparse.ArgumentParser()
ap.add_argument("--n", type=int, default=400)
ap.add_argument("--props", default="C03,C04,C11,C12,C13,C16")
ap.add_argument("--seeds", default="0,7")
ap.add_argument("--tier", default="quick")
a = ap.parse_args()
res = []
bad = 0
for prop in a.props.split(","):
    for vs in a.seeds.split(","):
        outs = []
        for hs, workers in (("0", "1"), ("12345", "1"), ("987", "16"), ("0", "5")):
            env = dict(os.environ, PYTHONHASHSEED=hs, VERIF_NO_REEXEC="1", VERIF_SEED=vs)
            p = subprocess.run(["/venv/bin/python", os.path.join(VERIF, "check.py"), prop, "--digests", str(a.n), "--workers", workers,
                                "--tier", a.tier], capture_output=True, text=True, env=env, cwd=VERIF)
            if p.returncode != 0:
                print("FAILED", prop, hs, workers, p.stdout[-500:], p.stderr[-500:])
                bad += 1
            outs.append(p.stdout)
        same = all(o == outs[0] for o in outs) and outs[0].count("\n") == a.n
        if not same:
            bad += 1
        distinct = len(set(l.split()[1] for l in outs[0].splitlines() if l and l[0].isdigit()))
        res.append({"property": prop, "verif_seed": int(vs), "runs": a.n, "configurations": 4, "identical": same, "distinct_digests": distinct})
        print(res[-1], flush=True)
json.dump({"note": "each row: N runs x 4 configurations (hash seeds 0/12345/987, in-process and 5-/16-worker fork pools), fresh interpreters",
           "tier": a.tier, "results": res}, open(os.path.join(HERE, "determinism.json"), "w"), indent=1)
print("determinism:", "OK" if not bad else f"{bad} PROBLEMS")
sys.exit(1 if bad else 0)
