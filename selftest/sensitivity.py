#!/venv/bin/python
"""Sensitivity self-test: apply each mutant to a scratch copy of /repo/scoda (outside /repo and /verif),
point VERIF_REPO at it, run the property's check with a reduced budget and record whether it exits 1 with a
reproducing replay. Equivalent mutants must exit 0. Scratch copies are removed as soon as they are judged.

usage: sensitivity.py [--only ID,ID] [--prop C04] [--runs N] [--out selftest/sensitivity.json]
"""
import argparse
import json
import os
import re
import shutil
import subprocess
import sys
import tempfile
import time

HERE = os.path.dirname(os.path.abspath(__file__))
VERIF = os.path.dirname(HERE)
sys.path.insert(0, HERE)
from mutants import MUTANTS  # noqa: E402


def apply_mutant(root, m):
    if "edits" in m:
        for e in m["edits"]:
            apply_mutant(root, dict(e, id=m["id"], file=e.get("file", m.get("file"))))
        return
    path = os.path.join(root, m["file"])
    src = open(path).read()
    if m.get("regex"):
        new, n = re.subn(m["old"], m["new"], src, count=m.get("count", 1), flags=re.S)
    else:
        n = src.count(m["old"])
        if m.get("occurrence") is not None:
            parts = src.split(m["old"])
            k = m["occurrence"]
            new = m["old"].join(parts[:k + 1]) + m["new"] + m["old"].join(parts[k + 1:])
        else:
            new = src.replace(m["old"], m["new"], m.get("count", 1))
    if n == 0 or new == src:
        raise SystemExit(f"mutant {m['id']}: pattern not found in {m['file']}")
    open(path, "w").write(new)


def main():
    ap = argparse.ArgumentParser()
    ap.add_argument("--only")
    ap.add_argument("--prop")
    ap.add_argument("--runs", type=int, default=0)
    ap.add_argument("--out", default=os.path.join(HERE, "sensitivity.json"))
    a = ap.parse_args()
    only = set(a.only.split(",")) if a.only else None
    results = []
    if os.path.exists(a.out):
        try:
            results = [r for r in json.load(open(a.out))["results"]]
        except Exception:
            results = []
    for m in MUTANTS:
        if only and m["id"] not in only:
            continue
        if a.prop and m["property"] != a.prop:
            continue
        tmp = tempfile.mkdtemp(prefix="scoda_mut_", dir="/tmp")
        try:
            shutil.copytree("/repo/scoda", os.path.join(tmp, "scoda"))
            apply_mutant(tmp, m)
            env = dict(os.environ, VERIF_REPO=tmp)
            cmd = ["/venv/bin/python", os.path.join(VERIF, "check.py"), m["property"], "--tier", "quick"]
            if a.runs:
                cmd += ["--runs", str(a.runs)]
            t0 = time.time()
            p = subprocess.run(cmd, capture_output=True, text=True, env=env, timeout=1200, cwd=VERIF)
            wall = time.time() - t0
            classes = sorted(set(re.findall(r"class=(\S+)", p.stdout)))
            replays = re.findall(r"VIOLATION property=\S+ replay=(\S+)", p.stdout)
            # every replay must reproduce 3 times in fresh processes
            stable = True
            for rp in replays[:2]:
                for _ in range(3):
                    q = subprocess.run(["/venv/bin/python", os.path.join(VERIF, "check.py"), m["property"], "--replay", rp,
                                        "--quiet"], capture_output=True, text=True, env=env, timeout=300, cwd=VERIF)
                    if q.returncode != 1:
                        stable = False
            first = None
            mm = re.search(r"runs=(\d+)", p.stdout)
            res = {"id": m["id"], "property": m["property"], "what": m["what"], "expect": m.get("expect", "caught"),
                   "exit": p.returncode, "classes": classes, "replays_stable": stable, "wall_s": round(wall, 1),
                   "runs": int(mm.group(1)) if mm else None,
                   "verdict": None}
            if m.get("expect", "caught") == "equivalent":
                res["verdict"] = "ok-silent" if p.returncode == 0 else "UNEXPECTED-ALARM"
            else:
                res["verdict"] = "caught" if (p.returncode == 1 and stable) else "MISSED"
            if p.returncode not in (0, 1):
                res["tail"] = (p.stdout + p.stderr)[-800:]
            for rp in replays:
                try:
                    os.remove(rp)
                except OSError:
                    pass
            results = [r for r in results if r["id"] != m["id"]] + [res]
            print(json.dumps(res))
            sys.stdout.flush()
        finally:
            shutil.rmtree(tmp, ignore_errors=True)
    results.sort(key=lambda r: r["id"])
    json.dump({"note": "mutants applied to a scratch copy of /repo/scoda; quick tier of the property's check",
               "results": results}, open(a.out, "w"), indent=1)
    bad = [r for r in results if r["verdict"] in ("MISSED", "UNEXPECTED-ALARM")]
    print(f"{len(results)} mutants, {len(bad)} not as expected: {[r['id'] for r in bad]}")


if __name__ == "__main__":
    main()
