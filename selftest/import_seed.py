#!/venv/bin/python
"""import_seed.py <id> <property> "<needs>"  - copy /tmp/seed_out/<id>/{patch.diff,demo.py,notes.md,confirm.log} into
/verif/seeded/<id>/ and write meta.json."""
import json, os, shutil, sys
sid, prop, needs = sys.argv[1], sys.argv[2], sys.argv[3]
also = sys.argv[4].split(",") if len(sys.argv) > 4 and sys.argv[4] else []
src = f"/tmp/seed_out/{sid}"
dst = os.path.join(os.path.dirname(os.path.dirname(os.path.abspath(__file__))), "seeded", sid)
os.makedirs(dst, exist_ok=True)
for f in ("patch.diff", "demo.py", "notes.md", "confirm.log"):
    if os.path.exists(os.path.join(src, f)):
        shutil.copy(os.path.join(src, f), os.path.join(dst, f))
conf = open(os.path.join(src, "confirm.log")).read() if os.path.exists(os.path.join(src, "confirm.log")) else ""
meta = {"id": sid, "property": prop, "needs_to_manifest": needs, "also_check": also,
        "origin": "independent sub-agent given only the property text and a scratch worktree of /repo",
        "confirmed": {"demo_fails_with_patch": "exit=1" in conf, "demo_passes_without": "exit=0" in conf,
                      "suite_passes_with_patch": "56 passed" in conf, "patch_applies_clean": "applies" in conf},
        "what_i_ran": ["git apply --check patch.diff (clean /repo)", "demo.py <patched worktree> -> exit 1", "demo.py /repo -> exit 0",
                       "pytest -q in the patched worktree -> 56 passed", "selftest/seeded.py --only " + sid]}
json.dump(meta, open(os.path.join(dst, "meta.json"), "w"), indent=1)
print(json.dumps(meta["confirmed"]))
