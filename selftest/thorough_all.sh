#!/bin/bash
# run every claimed check's thorough tier once (background use: vp run -- bash selftest/thorough_all.sh [workers] [budget])
W=${1:-8}; B=${2:-900}
for p in C03 C04 C11 C12 C13 C16; do
  /venv/bin/python check.py $p --tier thorough --workers $W --budget $B | tail -3 | cut -c1-400
done
