#!/venv/bin/python
"""check.py <ID> --tier quick|thorough            run the check, write evidence/<ID>.json
   check.py <ID> --replay FILE                    re-execute a replay file; exit 1 iff the violation reproduces
   check.py <ID> --digests N [--tier T]           print per-run event-log digests (determinism self-test)

Exit codes: 0 property held on everything explored (KNOWN-FINDING lines allowed); 1 at least one unlisted violation
(each with a line `VIOLATION property=<ID> replay=<path>`); 2 harness error (never reported as 0).
"""
import argparse
import json
import os
import sys

HERE = os.path.dirname(os.path.abspath(__file__))
sys.path.insert(0, HERE)

# a fixed hash seed is not needed for determinism (verified by selftest) but costs nothing
if os.environ.get("PYTHONHASHSEED") is None and os.environ.get("VERIF_NO_REEXEC") is None:
    os.environ["PYTHONHASHSEED"] = "0"
    os.execv(sys.executable, [sys.executable] + sys.argv)

from sim import core  # noqa: E402

# runs per tier: fixed counts so that one VERIF_SEED always explores the same set (unless the wall budget cuts it short)
BUDGET = {
    #         quick (runs, wall s)   thorough (runs, wall s)
    "C03": ((30000, 45), (1200000, 900)),
    "C04": ((48000, 45), (1600000, 900)),
    "C11": ((40000, 45), (1500000, 900)),
    "C12": ((80000, 45), (5000000, 900)),
    "C13": ((60000, 45), (4000000, 900)),
    "C16": ((60000, 45), (3000000, 900)),
}


def main():
    ap = argparse.ArgumentParser()
    ap.add_argument("prop")
    ap.add_argument("--tier", default=os.environ.get("VERIF_TIER", "quick"), choices=["quick", "thorough"])
    ap.add_argument("--replay")
    ap.add_argument("--digests", type=int)
    ap.add_argument("--start", type=int, default=0)
    ap.add_argument("--runs", type=int)
    ap.add_argument("--budget", type=float)
    ap.add_argument("--workers", type=int, default=int(os.environ.get("VERIF_WORKERS", "0")))
    ap.add_argument("--quiet", action="store_true")
    ap.add_argument("--log", action="store_true", help="with --replay: print the event log")
    a = ap.parse_args()
    prop = a.prop
    seed = int(os.environ.get("VERIF_SEED", "0"))

    if a.replay:
        with open(a.replay) as f:
            trace = json.load(f)
        core.import_scoda()
        eng = core.get_engine(prop)
        if trace.get("kind") == "history":
            # a violation that needs the state earlier runs of the same process left behind in the system under test
            r = core.run_history(prop, trace["tier"], trace["verif_seed"], trace["run_indices"])
            exp = trace.get("expected")
            if r is None or r.violation is None or (exp and exp["class"] != r.violation.cls):
                if not a.quiet:
                    print(f"replay (history of {len(trace['run_indices'])} runs): no violation (expected {exp['class'] if exp else '?'})")
                return core.EXIT_OK
            print(f"VIOLATION property={prop} replay={os.path.abspath(a.replay)}")
            print(f"  class={r.violation.cls} after_runs={trace['run_indices'][:-1]} run={trace['run_indices'][-1]}")
            print(f"  detail={r.violation.detail[:500]}")
            return core.EXIT_VIOLATION
        r = core.guarded(eng.replay, trace, True) if a.log else core.replay_trace(prop, trace)
        if a.log and r.log is not None:
            for line in r.log.items:
                print("  ", line)
        exp = trace.get("expected")
        if r.violation is None:
            if not a.quiet:
                print(f"replay: no violation (expected {exp['class'] if exp else '?'})")
            return core.EXIT_OK
        same = exp is None or (exp["class"] == r.violation.cls and exp.get("key") == r.violation.key)
        print(f"VIOLATION property={prop} replay={os.path.abspath(a.replay)}")
        print(f"  class={r.violation.cls} event_index={r.violation.event_index} same_as_recorded={same}")
        print(f"  detail={r.violation.detail[:500]}")
        return core.EXIT_VIOLATION

    if a.digests is not None:
        core.import_scoda()
        core.get_engine(prop)
        if a.workers and a.workers > 1:
            import multiprocessing
            from concurrent.futures import ProcessPoolExecutor
            chunks = [(lo, min(a.start + a.digests, lo + 50)) for lo in range(a.start, a.start + a.digests, 50)]
            with ProcessPoolExecutor(max_workers=a.workers, mp_context=multiprocessing.get_context("fork")) as ex:
                outs = list(ex.map(core.worker_chunk, [prop] * len(chunks), [a.tier] * len(chunks), [seed] * len(chunks),
                                   [c[0] for c in chunks], [c[1] for c in chunks], [0] * len(chunks), [True] * len(chunks)))
            digests = [d for o in outs for d in o["digests"]]
            harness = [h for o in outs for h in o["harness"]]
        else:
            out = core.worker_chunk(prop, a.tier, seed, a.start, a.start + a.digests, 0, digests_only=True)
            digests, harness = out["digests"], out["harness"]
        for i, d in enumerate(digests):
            print(a.start + i, d)
        if harness:
            print("HARNESS", json.dumps(harness[:3]))
            return core.EXIT_HARNESS
        return core.EXIT_OK

    (q_runs, q_wall), (t_runs, t_wall) = BUDGET[prop]
    runs, wall = (q_runs, q_wall) if a.tier == "quick" else (t_runs, t_wall)
    if a.runs:
        runs = a.runs
    if a.budget:
        wall = a.budget
    if os.environ.get("VERIF_BUDGET_S"):
        wall = float(os.environ["VERIF_BUDGET_S"])
    workers = a.workers or min(16, os.cpu_count() or 1)
    agg = core.run_batch(prop, a.tier, seed, runs, wall, workers)
    agg["workers"] = workers
    code, info = core.classify_and_report(prop, a.tier, seed, agg, quiet=a.quiet)
    eng = core.get_engine(prop)
    # a batch in which nothing was judged proves nothing: never let it exit 0
    if code == core.EXIT_OK and agg["n"] >= 1000 and hasattr(eng, "ESSENTIAL"):
        missing = [k for k in eng.ESSENTIAL if agg["stats"].get(k, 0) == 0]
        if missing:
            print("HARNESS-ERROR:", json.dumps({"error": f"{agg['n']} runs but nothing was judged: counters {missing} are zero"}))
            agg["harness"].append({"error": f"essential counters zero: {missing}"})
            code = core.EXIT_HARNESS
    # foreign failures (runs abandoned because subject and reference refuse alike) stay rare on the pinned tree
    # (<= 1.5 % for every check); a batch that abandons much more has explored too little to be believed
    n_foreign = sum(agg["foreign"].values())
    if code == core.EXIT_OK and agg["n"] >= 1000 and n_foreign > 0.06 * agg["n"]:
        print("HARNESS-ERROR:", json.dumps({"error": f"{n_foreign} of {agg['n']} runs were abandoned as foreign failures "
                                            f"({dict(agg['foreign'])}): too little was judged"})[:600])
        agg["harness"].append({"error": "foreign-failure rate above 6 %"})
        code = core.EXIT_HARNESS
    drift = core.api_drift()
    if drift:
        print(f"NOTE: the library's public API differs from the snapshot the operation alphabets were written against "
              f"({len(drift)} differences, e.g. {drift[0]}); new entry points are not explored until sim/ is extended")
    path = core.write_evidence(prop, a.tier, seed, agg, info, eng, code)
    print(f"{prop} tier={a.tier} seed={seed} runs={agg['n']} events={agg['events']} wall={agg['wall_s']:.1f}s "
          f"distinct_nontrivial={len(agg['abstracts'])} foreign={sum(agg['foreign'].values())} "
          f"violations_raw={len(agg['violations'])} exit={code} evidence={path}")
    return code


if __name__ == "__main__":
    sys.exit(main())
